#!/venv/bin/python
"""Regenerate /verif/MANIFEST.json from the table below (kept in one place so it stays valid)."""
import json
import os

VERIF = os.path.dirname(os.path.dirname(os.path.abspath(__file__)))

CLAIMED = {
    "C13": dict(level="exploration", design="3/C13",
                technique="deterministic simulation: seeded add_slide/notes histories over every corpus layout and package-level mutated layouts, interleaved with edits and checkpoint/restart; expectation from an independent parse of layout/master/notes-master XML",
                text="Seeded search over slide-addition and notes-creation histories from every layout of every corpus deck and from layouts rewritten by a seeded mutator (new idx, every layout-legal type, vertical orientation, sizes, removed layout geometry), interleaved with other edits, saves and restarts; the new slide's placeholders (serialised XML and public API) are compared with the list and inherited geometry derived independently from the layout, master and notes-master XML.",
                note="trusted: the XML reader/model in sim/props/c13.py incl. the documented master type mapping; mutated layouts never duplicate an idx"),
    "C18": dict(level="exploration", design="3/C18",
                technique="deterministic simulation: seeded core-property assignment histories under a simulated clock (forward/backward jumps) with checkpoint/restart, stored-state generator of W3CDTF forms; value model + independent W3CDTF reader + OPC core-properties XSD",
                text="Seeded search over assignment histories on the 15 core properties (boundary strings, datetimes across years 1..9999, revision values, wrong types) on decks with and without a core-properties part, the default part's timestamp being checked against the simulated clock under jumps, with saves and restarts; a reader arm feeds stored core.xml with every W3CDTF granularity and offsets in -14:00..+14:00; values are compared with a model, the part is validated against the OPC schema.",
                note="trusted: stub Dublin Core schemas (schemas/dc), the independent W3CDTF arithmetic in sim/props/c18.py; naive datetimes only"),
    "C15": dict(level="exploration", design="3/C15",
                technique="deterministic simulation: seeded picture-addition histories from path/stream sources (seeded stream position, misleading names) across slides, placeholders, poster frames and OLE icons with checkpoint/restart and injected source read faults; SHA1-keyed media-part multiset model + byte/type/size models",
                text="Seeded search over picture-addition histories (same and different bytes interleaved, path and stream sources, pictures / placeholder fills / movie posters / OLE icons) with saves, restarts and injected read faults; after every step the live package and every saved zip are compared with a SHA1-keyed multiset model (one part per distinct byte string, distinct names), stored bytes with the input, extension/content type with the actual format, and sizes with a DPI model.",
                note="trusted: Pillow for pixel size and DPI of the input bytes, sim/refpkg.py; sizes to within 1 EMU; boundary DPI values accept both readings of 'implausible'"),
    "C17": dict(level="exploration", design="3/C17",
                technique="deterministic simulation: seeded endpoint-move, group-add and freeform-build histories with held handles and checkpoint/restart against geometric reference models",
                text="Seeded search over connector endpoint moves (crossing the other endpoint in either axis), additions of every shape kind into groups nested to depth 4, and freeform builds with negative/fractional/repeated vertices, several contours and non-uniform scales, with saves and restarts in between; each step is checked against a geometric reference model (endpoint tuple, recursive bounding box incl. a:chOff/a:chExt parsed from the serialised part, scaled vertex bounding box and path extents).",
                note="trusted: the geometric models in sim/props/c17.py; freeform compared to within 1 EMU; empty sub-group ambiguity accepted both ways"),
    "C14": dict(level="exploration", design="3/C14",
                technique="deterministic simulation: seeded merge/split/text/resize histories with held cell handles and checkpoint/restart against a grid reference model; deterministic sweep of all single merges on shapes <=4x4",
                text="Seeded search over table operation histories (merge in any corner orientation, overlapping and cross-table merges, split, cell text, row/column resize) with cell handles held across operations and restarts in between, checked operation by operation against a grid reference model (disjoint rectangles, span readings, refused operations leave the part byte-identical, text migration order, frame size = sums), plus a complete depth-1 sweep on every table shape up to 4x4. The statement's depth-3 exhaustive sweep is not claimed.",
                note="trusted: the grid model in sim/props/c14.py; text migration compared on non-empty paragraph texts"),
    "C06": dict(level="exploration", design="3/C06",
                technique="deterministic simulation: seeded addition histories over id-mutated start decks with held handles, turbo-add buggify knob, checkpoint/restart; uniqueness/range/stability invariants after every event + remembered id->content lookups re-checked later and after restart",
                text="Seeded search over addition histories on start decks whose stored ids were rewritten by a seeded mutator; after every event newly assigned shape ids (read from the part's XML), slide ids, relationship ids in use and part names are checked for freshness, range, stability and uniqueness, and remembered id lookups must still designate the same content later and after restart.",
                note="trusted: lxml parse of part blobs; only newly assigned ids are judged; turbo-add only with a single held handle"),
    "C04": dict(level="exploration", design="3/C04",
                technique="deterministic simulation: seeded assignment histories at 4 levels on text bodies in generated prior states with checkpoint/restart scheduling; executable text-translation model + structure counts (public API and independent parse of saved bytes) + persistence across restarts",
                text="Seeded search over text-assignment histories (frame, cell, paragraph, run; strings over XML Char plus C0 controls) on text boxes, placeholders, table cells and notes in prior states produced by other text operations, with saves and restarts in between; read-back is compared with an executable model of the documented translations, paragraph/break counts are checked through the API and in the saved XML, and every recorded reading must persist across later operations and restarts.",
                note="trusted: the model in sim/props/c04.py (regexes for the documented escapes), zipfile/lxml for the saved-XML count; strings limited to XML Char + C0"),
    "C16": dict(level="fault_enumeration", design="3/C16",
                technique="deterministic simulation with fault injection into stored state: documented irregularities injected at every applicable location of every corpus deck (singles enumerated, pairs seeded), 3 storage forms; fault-aware independent OPC reader + exact exception-class table as oracle",
                text="Every single stored-state fault location of every corpus deck is enumerated (thorough: all of them x 3 storage forms; quick: seeded stratified slice + pinned cases) and pairs are sampled by seed; the loaded package must equal what an independent reader finds still reachable in the faulted bytes, the re-saved package must be closed, and non-packages must be refused with exactly the promised exception class.",
                note="trusted: zipfile, sim/refpkg.py, package transformers in sim/pkgxform.py and sim/props/c16.py; only listed irregularities are injected; pairs are sampled, not enumerated"),
    "C01": dict(level="exploration", design="3/C01",
                technique="deterministic simulation (storage seam, zero-fault control arm): seeded generator of stored OPC packages -> open/save/re-open cycles across 3 storage forms x 3 sink kinds under clock jumps; independent OPC reference reader as oracle",
                text="Seeded search over generated well-formed OPC packages (relationship-graph shapes, target spellings, content-type declaration mixes, payload kinds) plus every corpus deck, each driven through open -> save -> open -> save -> open on the simulated storage with clock jumps; an independent reader compares reachable parts, types, payloads and relationships of input and output and checks the second cycle is a byte fix-point. Sampling, not proof.",
                note="trusted: zipfile, lxml C14N, sim/refpkg.py; part names restricted to URI-safe characters; member order/compression/timestamps not asserted"),
    "C03": dict(level="exploration", design="3/C03",
                technique="deterministic simulation: seeded op/fault histories; differential XSD validation (vendored ISO 29500-4 transitional schemas, MCE preprocessing) of every changed XML part after every event",
                text="Seeded search over operation histories (formatting-heavy swarm mix, rejected calls and source I/O faults as injected faults) from the default template and every corpus deck; after every event each changed XML part is validated differentially against the vendored schemas. Sampling, not proof.",
                note="trusted: vendored XSDs, libxml2 validator, MCE preprocessing (sim/xsd.py); parts without a schema here are skipped and counted"),
    "C02": dict(level="exploration", design="3/C02",
                technique="deterministic simulation: seeded op/fault histories with checkpoint-restart, storage fault injection in save and file reads, independent OPC reader + live-vs-reopened snapshot oracle, ddmin replay",
                text="Seeded search over histories of public-API operations interleaved with saves, restarts, forks, clock jumps and injected storage faults; every acknowledged save is checked by an independent OPC reader (closure rules) and by re-opening and comparing a public-API snapshot. Sampling, not proof.",
                note="trusted: zipfile, lxml, the reference reader (sim/refpkg.py), snapshot reader (sim/snapshot.py); seekable well-behaved streams; clock within 1980..2107"),
}

NOT_APPLICABLE = {
    "C05": "pure function of one caller string per sink: no history, schedule, clock, storage or fault for a simulator to decide (DESIGN.md section 6)",
    "C10": "exhaustive static comparison of successors declarations with XSD content models: finite enumeration, nothing for a scheduler or fault injector to decide (DESIGN.md section 6)",
    "C11": "lexical/range behaviour of simple types: pure functions of one value, decided by boundary enumeration, not simulated runs (DESIGN.md section 6)",
    "C19": "PackURI arithmetic: pure string functions, bounded-exhaustive enumeration is the fitting method, not simulation (DESIGN.md section 6)",
    "C20": "agreement of literal tables with the standard's data files: static data comparison with no dynamic behaviour (DESIGN.md section 6)",
}

PENDING = {}  # properties whose check is designed (DESIGN.md) but not yet registered


def main():
    all_ids = ["C%02d" % i for i in range(1, 21)]
    checks = []
    for pid in all_ids:
        if pid not in CLAIMED:
            continue
        c = CLAIMED[pid]
        checks.append({
            "property_id": pid,
            "quick_cmd": "./check %s --tier quick" % pid,
            "thorough_cmd": "./check %s --tier thorough" % pid,
            "evidence_file": "evidence/%s.json" % pid,
            "replay_cmd_template": "./check %s --replay {path}" % pid,
            "engine": "sim",
            "level_claimed": {"category": c["level"], "text": c["text"], "design_ref": "DESIGN.md section " + c["design"]},
            "level_note": c["note"],
            "technique": c["technique"],
        })
    na = []
    for pid in all_ids:
        if pid in CLAIMED:
            continue
        if pid in NOT_APPLICABLE:
            na.append({"property_id": pid, "reason": NOT_APPLICABLE[pid]})
        else:
            na.append({"property_id": pid, "reason": PENDING.get(pid, "not claimed yet: check designed in DESIGN.md but not built/registered at this commit")})
    m = {
        "version": 1,
        "setup_cmd": "/venv/bin/python -c \"import lxml, PIL, xlsxwriter, sys; sys.path.insert(0,'/repo/src'); import pptx; print('ok', pptx.__file__)\"",
        "hooks": {
            "guard": "PYTHON_PPTX_VERIF",
            "enable": "no source hooks are needed: every seam is an argument (file-like objects), a module attribute (time.time, datetime.datetime replaced before pptx/xlsxwriter are imported) or the order of calls; checks import /repo/src directly (pure Python, nothing to build)",
            "baseline_off_cmd": "cd /repo && /venv/bin/python -m pytest -ra -q -p no:cacheprovider --timeout=900 --continue-on-collection-errors",
            "source_commits": [],
            "add_only": True,
        },
        "engines": [{"name": "sim", "path": "sim/", "serves_properties": sorted(CLAIMED),
                     "kind_free_text": "single-process deterministic simulator: seeded history generator, SimClock/SimDisk/SimSource/SimSink seams, fault injection, reference models, ddmin, replay files"}],
        "checks": checks,
        "not_applicable": na,
        "notes": "Entry point ./check <ID> --tier quick|thorough [--seed N] [--replay FILE]; VERIF_SEED and VERIF_TIER are honoured. Exit 0 held / 1 VIOLATION / 2 harness error. Known findings: known_findings.json.",
    }
    with open(os.path.join(VERIF, "MANIFEST.json"), "w") as f:
        json.dump(m, f, indent=1)
    print("wrote MANIFEST.json: %d checks, %d not_applicable" % (len(checks), len(na)))


if __name__ == "__main__":
    main()
