#!/venv/bin/python
"""Regenerate /verif/MANIFEST.json from the table below (kept in one place so it stays valid)."""
import json
import os

VERIF = os.path.dirname(os.path.dirname(os.path.abspath(__file__)))

CLAIMED = {
    "C03": dict(level="exploration", design="3/C03",
                technique="deterministic simulation: seeded op/fault histories; differential XSD validation (vendored ISO 29500-4 transitional schemas, MCE preprocessing) of every changed XML part after every event",
                text="Seeded search over operation histories (formatting-heavy swarm mix, rejected calls and source I/O faults as injected faults) from the default template and every corpus deck; after every event each changed XML part is validated differentially against the vendored schemas. Sampling, not proof.",
                note="trusted: vendored XSDs, libxml2 validator, MCE preprocessing (sim/xsd.py); parts without a schema here are skipped and counted"),
    "C02": dict(level="exploration", design="3/C02",
                technique="deterministic simulation: seeded op/fault histories with checkpoint-restart, storage fault injection in save and file reads, independent OPC reader + live-vs-reopened snapshot oracle, ddmin replay",
                text="Seeded search over histories of public-API operations interleaved with saves, restarts, forks, clock jumps and injected storage faults; every acknowledged save is checked by an independent OPC reader (closure rules) and by re-opening and comparing a public-API snapshot. Sampling, not proof.",
                note="trusted: zipfile, lxml, the reference reader (sim/refpkg.py), snapshot reader (sim/snapshot.py); seekable well-behaved streams; clock within 1980..2107"),
}

NOT_APPLICABLE = {
    "C05": "pure function of one caller string per sink: no history, schedule, clock, storage or fault for a simulator to decide (DESIGN.md section 6)",
    "C10": "exhaustive static comparison of successors declarations with XSD content models: finite enumeration, nothing for a scheduler or fault injector to decide (DESIGN.md section 6)",
    "C11": "lexical/range behaviour of simple types: pure functions of one value, decided by boundary enumeration, not simulated runs (DESIGN.md section 6)",
    "C19": "PackURI arithmetic: pure string functions, bounded-exhaustive enumeration is the fitting method, not simulation (DESIGN.md section 6)",
    "C20": "agreement of literal tables with the standard's data files: static data comparison with no dynamic behaviour (DESIGN.md section 6)",
}

PENDING = {}  # properties whose check is designed (DESIGN.md) but not yet registered


def main():
    all_ids = ["C%02d" % i for i in range(1, 21)]
    checks = []
    for pid in all_ids:
        if pid not in CLAIMED:
            continue
        c = CLAIMED[pid]
        checks.append({
            "property_id": pid,
            "quick_cmd": "./check %s --tier quick" % pid,
            "thorough_cmd": "./check %s --tier thorough" % pid,
            "evidence_file": "evidence/%s.json" % pid,
            "replay_cmd_template": "./check %s --replay {path}" % pid,
            "engine": "sim",
            "level_claimed": {"category": c["level"], "text": c["text"], "design_ref": "DESIGN.md section " + c["design"]},
            "level_note": c["note"],
            "technique": c["technique"],
        })
    na = []
    for pid in all_ids:
        if pid in CLAIMED:
            continue
        if pid in NOT_APPLICABLE:
            na.append({"property_id": pid, "reason": NOT_APPLICABLE[pid]})
        else:
            na.append({"property_id": pid, "reason": PENDING.get(pid, "not claimed yet: check designed in DESIGN.md but not built/registered at this commit")})
    m = {
        "version": 1,
        "setup_cmd": "/venv/bin/python -c \"import lxml, PIL, xlsxwriter, sys; sys.path.insert(0,'/repo/src'); import pptx; print('ok', pptx.__file__)\"",
        "hooks": {
            "guard": "PYTHON_PPTX_VERIF",
            "enable": "no source hooks are needed: every seam is an argument (file-like objects), a module attribute (time.time, datetime.datetime replaced before pptx/xlsxwriter are imported) or the order of calls; checks import /repo/src directly (pure Python, nothing to build)",
            "baseline_off_cmd": "cd /repo && /venv/bin/python -m pytest -ra -q -p no:cacheprovider --timeout=900 --continue-on-collection-errors",
            "source_commits": [],
            "add_only": True,
        },
        "engines": [{"name": "sim", "path": "sim/", "serves_properties": sorted(CLAIMED),
                     "kind_free_text": "single-process deterministic simulator: seeded history generator, SimClock/SimDisk/SimSource/SimSink seams, fault injection, reference models, ddmin, replay files"}],
        "checks": checks,
        "not_applicable": na,
        "notes": "Entry point ./check <ID> --tier quick|thorough [--seed N] [--replay FILE]; VERIF_SEED and VERIF_TIER are honoured. Exit 0 held / 1 VIOLATION / 2 harness error. Known findings: known_findings.json.",
    }
    with open(os.path.join(VERIF, "MANIFEST.json"), "w") as f:
        json.dump(m, f, indent=1)
    print("wrote MANIFEST.json: %d checks, %d not_applicable" % (len(checks), len(na)))


if __name__ == "__main__":
    main()
