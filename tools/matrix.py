#!/venv/bin/python
"""Cross matrix: every registered check against every seeded change, without touching /repo.

Each seeded change is applied in its own scratch worktree under /dev/shm and the checks are pointed at it with
VERIF_REPO_SRC (the checks import python-pptx from there).  Result: seeded/matrix.json  {change: {check: exit}}.
The authoritative per-property results (change applied to /repo itself) are in seeded/<id>/result.json.

usage: tools/matrix.py [--jobs 3] [--workers 5] [--checks C02,C06,...] [ids...]
"""
import concurrent.futures as cf
import json
import os
import re
import shutil
import subprocess
import sys

VERIF = os.path.dirname(os.path.dirname(os.path.abspath(__file__)))
SEEDED = os.path.join(VERIF, "seeded")
ALL = ["C01", "C02", "C03", "C04", "C06", "C07", "C08", "C09", "C12", "C13", "C14", "C15", "C16", "C17", "C18"]


def sh(cmd, **kw):
    return subprocess.run(cmd, capture_output=True, text=True, **kw)


def one(mid, checks, workers):
    wt = "/dev/shm/mx-%s" % mid
    sh(["git", "-C", "/repo", "worktree", "remove", "--force", wt])
    shutil.rmtree(wt, ignore_errors=True)
    r = sh(["git", "-C", "/repo", "worktree", "add", "--detach", wt, "HEAD"])
    if r.returncode != 0:
        return mid, {"error": r.stderr[-200:]}
    out = {}
    try:
        a = sh(["git", "-C", wt, "apply", os.path.join(SEEDED, mid, "patch.diff")])
        if a.returncode != 0:
            # written against an earlier /repo head (a later fix: commit touched the same lines): evaluate it on the head it was confirmed on
            base = json.load(open(os.path.join(SEEDED, mid, "meta.json"))).get("confirmed_by", {}).get("repo_head")
            if base:
                sh(["git", "-C", wt, "checkout", "--detach", base])
                a = sh(["git", "-C", wt, "apply", os.path.join(SEEDED, mid, "patch.diff")])
                out["_base"] = base
        if a.returncode != 0:
            return mid, {"error": "patch does not apply: " + a.stderr[-200:]}
        env = dict(os.environ, VERIF_REPO_SRC=wt + "/src", VERIF_WORKERS=str(workers), VERIF_EVIDENCE_DIR="/dev/shm/mx-evidence-%s" % mid,
                   VERIF_REPLAY_DIR="/dev/shm/mx-replays-%s" % mid)
        if checks == ["own"]:
            checks = [json.load(open(os.path.join(SEEDED, mid, "meta.json")))["property"]]
        for c in checks:
            p = sh([os.path.join(VERIF, "check"), c, "--tier", "quick"], cwd=VERIF, env=env, timeout=3600)
            sigs = re.findall(r"^violation signature: (.*)$", p.stdout, re.M)
            out[c] = {"exit": p.returncode, "sig": (sigs or [""])[0][:100]}
    finally:
        sh(["git", "-C", "/repo", "worktree", "remove", "--force", wt])
        shutil.rmtree(wt, ignore_errors=True)
        shutil.rmtree("/dev/shm/mx-evidence-%s" % mid, ignore_errors=True)
        shutil.rmtree("/dev/shm/mx-replays-%s" % mid, ignore_errors=True)
    return mid, out


def main():
    args = sys.argv[1:]
    jobs, workers, checks, ids = 3, 5, ALL, []
    i = 0
    while i < len(args):
        if args[i] == "--jobs":
            jobs = int(args[i + 1]); i += 2
        elif args[i] == "--workers":
            workers = int(args[i + 1]); i += 2
        elif args[i] == "--checks":
            checks = args[i + 1].split(","); i += 2
        else:
            ids.append(args[i]); i += 1
    if not ids:
        ids = sorted(x for x in os.listdir(SEEDED) if os.path.isdir(os.path.join(SEEDED, x)))
    path = os.path.join(SEEDED, "matrix.json")
    mx = json.load(open(path)) if os.path.exists(path) else {}
    with cf.ThreadPoolExecutor(jobs) as ex:
        for mid, out in ex.map(lambda m: one(m, checks, workers), ids):
            mx.setdefault(mid, {}).update(out)
            print(mid, {c: v.get("exit") if isinstance(v, dict) else v for c, v in out.items() if c != "error" or True})
            sys.stdout.flush()
            json.dump(mx, open(path, "w"), indent=1, sort_keys=True)


if __name__ == "__main__":
    main()
