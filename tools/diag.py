#!/venv/bin/python
"""Dev tool: run N seeded traces of a property in-process-pool and print outcome/undoc stats."""
import collections, os, sys
os.environ.setdefault("PYTHONHASHSEED", "0")
os.environ["TZ"] = "UTC"
sys.dont_write_bytecode = True
VERIF = os.path.dirname(os.path.dirname(os.path.abspath(__file__)))
sys.path.insert(0, VERIF); sys.path.insert(0, "/repo/src")
from sim import seams; seams.install()
import pptx
from sim import runner, findings
import concurrent.futures as cf, multiprocessing

def one(args):
    pid, tier, idx = args
    mod = runner.load_prop(pid)
    trace = mod.gen_trace(runner.run_seed(0, pid, tier, idx), tier)
    res = runner._exec_trace(pid, trace, collect_log=True)
    und = [(l["op"], l["exc"], l["msg"]) for l in res.get("log", []) if l.get("kind") == "undoc"]
    ops = collections.Counter((e["op"], o.split(":")[0]) for e, o in zip(trace["events"], res["outcomes"]))
    skips = collections.Counter((e["op"], o) for e, o in zip(trace["events"], res["outcomes"]) if o.startswith("skip"))
    return idx, res["violation"], res["error"], und, ops, skips, res["stats"]

if __name__ == "__main__":
    pid, tier, n = sys.argv[1], sys.argv[2], int(sys.argv[3])
    ctx = multiprocessing.get_context("fork")
    und = collections.Counter(); ops = collections.Counter(); skips = collections.Counter(); viol = collections.Counter(); stats = collections.Counter()
    with cf.ProcessPoolExecutor(16, mp_context=ctx) as pool:
        for idx, v, err, u, o, s, st in pool.map(one, [(pid, tier, i) for i in range(n)], chunksize=4):
            if err: print("ERR", idx, err[:1500])
            if v: viol[v["sig"]] += 1; print("VIOL", idx, v["sig"], v["detail"][:300])
            und.update(u); ops.update(o); skips.update(s); stats.update(st)
    print("--- undoc"); [print(v, k) for k, v in und.most_common(60)]
    print("--- ops"); 
    byop = collections.defaultdict(dict)
    for (op, out), c in ops.items(): byop[op][out] = c
    for op in sorted(byop): print("  %-20s %s" % (op, dict(sorted(byop[op].items()))))
    print("--- skips"); [print(v, k) for k, v in skips.most_common(40)]
    print("--- viol", dict(viol))
    print("--- stats", {k: v for k, v in stats.items() if not k.startswith("undoc") and not k.startswith("SIG ")})
    print("--- collected signatures")
    for k, v in sorted(stats.items()):
        if k.startswith("SIG "): print(v, k[4:])
