#!/venv/bin/python
"""Evaluate seeded breaking changes against the registered checks.

  tools/mutants.py confirm <dir-with-mN.diff...> <PROP>     verify each candidate in a scratch worktree (demo clean=0,
                                                           demo mutant=1, test suite 566 passed) and store the confirmed
                                                           ones under /verif/seeded/<PROP>-mN/
  tools/mutants.py run [ids...] [--checks C02,C06] [--tier quick]
                                                           for each stored seeded change: git -C /repo apply, run the
                                                           check(s), git -C /repo checkout -- . ; results -> seeded/<id>/result.json
/repo is always restored (try/finally); nothing is ever committed there.
"""
import json
import os
import re
import shutil
import subprocess
import sys
import time

VERIF = os.path.dirname(os.path.dirname(os.path.abspath(__file__)))
SEEDED = os.path.join(VERIF, "seeded")
SCRATCH = os.environ.get("MUT_SCRATCH", "/dev/shm/mutcheck-wt")
PYTEST = ["/venv/bin/python", "-m", "pytest", "-q", "-p", "no:cacheprovider", "--timeout=900", "--continue-on-collection-errors"]


def sh(cmd, **kw):
    return subprocess.run(cmd, capture_output=True, text=True, **kw)


def repo_clean():
    return sh(["git", "-C", "/repo", "status", "--porcelain"]).stdout.strip() == ""


def confirm(src_dir, prop, tag=""):
    if os.path.exists(SCRATCH):
        sh(["git", "-C", "/repo", "worktree", "remove", "--force", SCRATCH])
        shutil.rmtree(SCRATCH, ignore_errors=True)
    r = sh(["git", "-C", "/repo", "worktree", "add", "--detach", SCRATCH, "HEAD"])
    assert r.returncode == 0, r.stderr
    env = dict(os.environ, PYTHONPATH=SCRATCH + "/src", WT=SCRATCH, PYTHONDONTWRITEBYTECODE="1")
    try:
        for f in sorted(os.listdir(src_dir)):
            m = re.match(r"^(m\d+)\.diff$", f)
            if not m:
                continue
            mid = m.group(1)
            diff = os.path.join(src_dir, f)
            demo = os.path.join(src_dir, mid + "_demo.py")
            md = os.path.join(src_dir, mid + ".md")
            rec = {"property": prop, "origin": diff}
            ok = sh(["git", "-C", SCRATCH, "apply", "--check", diff])
            rec["applies_to_head"] = ok.returncode == 0
            if ok.returncode != 0:
                print(prop, mid, "does not apply:", ok.stderr[:200])
                continue
            clean = sh(["/venv/bin/python", demo, SCRATCH], env=env, cwd=SCRATCH, timeout=600)
            rec["demo_clean_exit"] = clean.returncode
            sh(["git", "-C", SCRATCH, "apply", diff])
            try:
                mut = sh(["/venv/bin/python", demo, SCRATCH], env=env, cwd=SCRATCH, timeout=600)
                rec["demo_mutant_exit"] = mut.returncode
                rec["demo_mutant_output"] = (mut.stdout + mut.stderr)[-600:]
                t = sh(PYTEST, env=env, cwd=SCRATCH, timeout=900)
                tail = (t.stdout.strip().splitlines() or [""])[-1]
                rec["tests_with_mutant"] = tail
            finally:
                sh(["git", "-C", SCRATCH, "checkout", "--", "."])
            good = rec["demo_clean_exit"] == 0 and rec["demo_mutant_exit"] == 1 and "566 passed" in rec["tests_with_mutant"] and "failed" not in rec["tests_with_mutant"]
            rec["confirmed"] = good
            print(prop, mid, "clean=%s mutant=%s tests=%r -> %s" % (rec["demo_clean_exit"], rec["demo_mutant_exit"], rec["tests_with_mutant"], "CONFIRMED" if good else "REJECTED"))
            if good:
                d = os.path.join(SEEDED, "%s-%s%s" % (prop, tag, mid))
                os.makedirs(d, exist_ok=True)
                shutil.copy(diff, os.path.join(d, "patch.diff"))
                shutil.copy(demo, os.path.join(d, "demo.py"))
                needs = open(md).read() if os.path.exists(md) else ""
                meta = {"id": "%s-%s%s" % (prop, tag, mid), "property": prop, "needs_to_manifest": needs,
                        "confirmed_by": {"scratch_worktree": SCRATCH, "repo_head": sh(["git", "-C", "/repo", "rev-parse", "--short", "HEAD"]).stdout.strip(),
                                         "demo_on_clean_tree_exit": rec["demo_clean_exit"], "demo_with_change_exit": rec["demo_mutant_exit"],
                                         "test_suite_with_change": rec["tests_with_mutant"],
                                         "commands": ["git worktree add --detach %s HEAD" % SCRATCH, "PYTHONPATH=<wt>/src /venv/bin/python demo.py <wt>",
                                                      "git apply patch.diff", "PYTHONPATH=<wt>/src /venv/bin/python demo.py <wt>",
                                                      "PYTHONPATH=<wt>/src " + " ".join(PYTEST)]},
                        "written_by": "independent sub-agent given only the property text and a scratch worktree"}
                json.dump(meta, open(os.path.join(d, "meta.json"), "w"), indent=1)
    finally:
        sh(["git", "-C", "/repo", "worktree", "remove", "--force", SCRATCH])
        shutil.rmtree(SCRATCH, ignore_errors=True)


def run(ids, checks, tier):
    assert repo_clean(), "/repo has uncommitted changes"
    for mid in ids:
        d = os.path.join(SEEDED, mid)
        meta = json.load(open(os.path.join(d, "meta.json")))
        cs = checks or [meta["property"]]
        res = {}
        r = sh(["git", "-C", "/repo", "apply", os.path.join(d, "patch.diff")])
        if r.returncode != 0:
            print(mid, "patch does not apply to /repo:", r.stderr[:200])
            continue
        try:
            for c in cs:
                t0 = time.time()
                p = sh([os.path.join(VERIF, "check"), c, "--tier", tier], cwd=VERIF, timeout=3600)
                sigs = re.findall(r"^violation signature: (.*)$", p.stdout, re.M)
                res[c] = {"exit": p.returncode, "signatures": sigs[:6], "wall_s": round(time.time() - t0, 1),
                          "harness": re.findall(r"^HARNESS-ERROR: (.*)$", p.stdout, re.M)[:3]}
                print(mid, c, "exit", p.returncode, "sigs", [s[:90] for s in sigs[:3]], "%.0fs" % (time.time() - t0))
                sys.stdout.flush()
        finally:
            sh(["git", "-C", "/repo", "checkout", "--", "."])
            assert repo_clean()
        old = {}
        rp = os.path.join(d, "result.json")
        if os.path.exists(rp):
            old = json.load(open(rp))
        old.setdefault(tier, {}).update(res)
        old["repo_head"] = sh(["git", "-C", "/repo", "rev-parse", "--short", "HEAD"]).stdout.strip()
        old["verif_commit"] = sh(["git", "-C", VERIF, "rev-parse", "--short", "HEAD"]).stdout.strip()
        json.dump(old, open(rp, "w"), indent=1)
        # evidence files are rewritten by check runs on the mutated tree: they are restored by the caller re-running checks


if __name__ == "__main__":
    if sys.argv[1] == "confirm":
        confirm(sys.argv[2], sys.argv[3], sys.argv[4] if len(sys.argv) > 4 else "")
    else:
        args = sys.argv[2:]
        checks, tier, ids = None, "quick", []
        i = 0
        while i < len(args):
            if args[i] == "--checks":
                checks = args[i + 1].split(",")
                i += 2
            elif args[i] == "--tier":
                tier = args[i + 1]
                i += 2
            else:
                ids.append(args[i])
                i += 1
        if not ids:
            ids = sorted(x for x in os.listdir(SEEDED) if os.path.isdir(os.path.join(SEEDED, x)))
        run(ids, checks, tier)
