#!/bin/sh
# run every registered check's quick (or $1) tier on the current tree; print a one-line verdict each
TIER=${1:-quick}
cd "$(dirname "$0")/.."
for id in C01 C02 C03 C04 C06 C07 C08 C09 C12 C13 C14 C15 C16 C17 C18; do
  out=$(./check $id --tier $TIER 2>&1); rc=$?
  echo "$id exit=$rc $(echo "$out" | grep -E "^$id:" | tail -1)"
  echo "$out" | grep -E "^VIOLATION|^HARNESS-ERROR" | head -5
done
