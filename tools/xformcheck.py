#!/venv/bin/python
"""Self-check of the package-level transformers (sim/pkgxform.py): on every corpus deck each transformer must leave the closure result and
the set of reachable parts as they were (renames aside) and python-pptx must still read the same slides.  Development tool; a transformer
that breaks a deck would show up as a false alarm of the checks that use it (it happened once: rename_slides 'shuffle', DESIGN 13)."""
import glob
import io
import json
import os
import sys

VERIF = os.path.dirname(os.path.dirname(os.path.abspath(__file__)))
sys.path.insert(0, VERIF)
sys.path.insert(0, os.environ.get("VERIF_REPO_SRC", "/repo/src"))
from sim import pkgxform, refpkg, snapshot  # noqa: E402
import pptx  # noqa: E402

XF = []
for mode in ("reverse", "rotate", "gaps", "shuffle", "lastfits", "firstbig", "midnext", "midnext2"):
    XF += [{"kind": "rename_slides", "mode": mode, "seed": s} for s in range(6)]
for fam in pkgxform.FAMILIES:
    XF += [{"kind": "renumber", "family": fam, "mode": m, "seed": 3} for m in ("odd", "shift", "sparse", "reverse")]
XF += [{"kind": "respell_rids", "style": st, "seed": 4} for st in ("hex", "padded", "sparse", "words", "mixed")]
XF += [{"kind": "respell_targets", "style": st, "seed": 4} for st in ("abs", "dot", "updown", "mixed")]
XF += [{"kind": "explicit_internal", "rate": 0.5, "seed": 1}, {"kind": "rewrite_slides", "how": "bool_words"}, {"kind": "rewrite_slides", "how": "strip_tblPr"},
       {"kind": "rewrite_slides", "how": "strip_cell_txBody"}, {"kind": "rewrite_charts", "how": "reverse_idx"}, {"kind": "rewrite_charts", "how": "date1904"},
       {"kind": "layout_logo", "k": 3, "seed": 1}, {"kind": "rewrite_slides", "how": "hover_links"},
       {"kind": "rewrite_slides", "how": "optional_children"}, {"kind": "rewrite_charts", "how": "optional_children"}, {"kind": "big_blob", "size": 5000, "seed": 1},
       {"kind": "rewrite_charts", "how": "shift_order", "seed": 1}, {"kind": "rewrite_charts", "how": "reverse_repeated"}]
XF += [{"kind": "respell_package_xml", "style": st, "seed": 2} for st in ("prefixed", "multiline", "utf16", "mixed")]
XF += [{"kind": "alias_types", "seed": 1}]
SAME_SNAPSHOT = {"alias_types", "respell_rids", "respell_targets", "explicit_internal", "renumber", "respell_package_xml", "big_blob"}


def main():
    bad = n = 0
    for f in sorted(glob.glob(os.path.join(VERIF, "decks", "*.pptx"))):
        data = open(f, "rb").read()
        rp0 = refpkg.RefPackage.from_bytes(data)
        p0 = len(refpkg.closure_problems(rp0))
        snap0 = None
        for x in XF:
            out = pkgxform.apply(data, x)
            if out == data:
                continue
            n += 1
            rp = refpkg.RefPackage.from_bytes(out)
            extra = 1 if x["kind"] in ("layout_logo", "big_blob") else 0
            if len(refpkg.closure_problems(rp)) != p0 or len(rp.reachable) != len(rp0.reachable) + extra:
                print("BROKEN", os.path.basename(f), x)
                bad += 1
                continue
            if (x["kind"] in SAME_SNAPSHOT and x.get("family") not in ("layouts", "masters")) or x.get("how") in ("bool_words", "strip_cell_txBody", "strip_tblPr"):
                # (the snapshot names a slide's layout by its part name, which renumbering layouts changes by design)
                if snap0 is None:
                    snap0 = json.dumps([snapshot.slide_snap(s, deep=True) for s in pptx.Presentation(io.BytesIO(data)).slides], default=repr, sort_keys=True)
                s1 = json.dumps([snapshot.slide_snap(s, deep=True) for s in pptx.Presentation(io.BytesIO(out)).slides], default=repr, sort_keys=True)
                if s1 != snap0:
                    print("MEANING CHANGED", os.path.basename(f), x)
                    bad += 1
    print("transformer self-check: %d applications, %d broken" % (n, bad))
    return 1 if bad else 0


if __name__ == "__main__":
    sys.exit(main())
