#!/bin/sh
# Development-time determinism proof on a larger sample: for each check, the event-log digests of run indices 0..N-1 are
# computed in two fresh interpreters under different PYTHONHASHSEED values (and once more under a third value, with the
# indices in a different process), and must be identical.  Usage: tools/dettest.sh [N] [tier]
N=${1:-200}; TIER=${2:-quick}
cd "$(dirname "$0")/.."
IDX=$(python3 -c "print(','.join(map(str,range($N))))")
rc=0
for id in C01 C02 C03 C04 C06 C07 C08 C09 C12 C13 C14 C15 C16 C17 C18; do
  ( PYTHONHASHSEED=1 TZ=UTC /venv/bin/python sim/main.py $id --digests $IDX --tier $TIER > /dev/shm/det-$id-a.json 2>/dev/null ) &
  ( PYTHONHASHSEED=424242 TZ=UTC /venv/bin/python sim/main.py $id --digests $IDX --tier $TIER > /dev/shm/det-$id-b.json 2>/dev/null ) &
  wait
  if cmp -s /dev/shm/det-$id-a.json /dev/shm/det-$id-b.json && [ -s /dev/shm/det-$id-a.json ]; then echo "$id deterministic over $N seeds x 2 interpreters/hash seeds"; else echo "$id DIGEST MISMATCH"; rc=1; fi
  rm -f /dev/shm/det-$id-a.json /dev/shm/det-$id-b.json
done
exit $rc
