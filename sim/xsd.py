"""XSD oracle: ISO/IEC 29500-4 transitional schemas (vendored in /verif/schemas) + OPC schemas,
with markup-compatibility preprocessing and normalised error signatures."""
from __future__ import annotations

import copy
import os
import re

from lxml import etree

HERE = os.path.dirname(os.path.abspath(__file__))
SCHEMAS = os.path.join(os.path.dirname(HERE), "schemas")

NS_MC = "http://schemas.openxmlformats.org/markup-compatibility/2006"

ROOT_NS_TO_SCHEMA = {
    "http://schemas.openxmlformats.org/presentationml/2006/main": ("pml", "ooxml/pml.xsd"),
    "http://schemas.openxmlformats.org/drawingml/2006/main": ("dml-main", "ooxml/dml-main.xsd"),
    "http://schemas.openxmlformats.org/drawingml/2006/chart": ("dml-chart", "ooxml/dml-chart.xsd"),
    "http://schemas.openxmlformats.org/package/2006/relationships": ("opc-rels", "opc/opc-relationships.xsd"),
    "http://schemas.openxmlformats.org/package/2006/content-types": ("opc-ct", "opc/opc-contentTypes.xsd"),
    "http://schemas.openxmlformats.org/package/2006/metadata/core-properties": ("opc-core", "opc/opc-coreProperties.xsd"),
    "http://schemas.openxmlformats.org/officeDocument/2006/extended-properties": ("app", "ooxml/shared-documentPropertiesExtended.xsd"),
}

PREFIX = {
    "http://schemas.openxmlformats.org/presentationml/2006/main": "p",
    "http://schemas.openxmlformats.org/drawingml/2006/main": "a",
    "http://schemas.openxmlformats.org/drawingml/2006/chart": "c",
    "http://schemas.openxmlformats.org/officeDocument/2006/relationships": "r",
    "http://schemas.openxmlformats.org/package/2006/relationships": "pr",
    "http://schemas.openxmlformats.org/package/2006/content-types": "ct",
    "http://schemas.openxmlformats.org/package/2006/metadata/core-properties": "cp",
    "http://purl.org/dc/elements/1.1/": "dc",
    "http://purl.org/dc/terms/": "dcterms",
    "http://schemas.openxmlformats.org/drawingml/2006/picture": "pic",
    "http://schemas.openxmlformats.org/drawingml/2006/diagram": "dgm",
    "http://schemas.openxmlformats.org/officeDocument/2006/extended-properties": "ep",
    "http://schemas.openxmlformats.org/officeDocument/2006/docPropsVTypes": "vt",
    "http://schemas.openxmlformats.org/drawingml/2006/chartDrawing": "cdr",
}

_DC = {
    "http://dublincore.org/schemas/xmls/qdc/2003/04/02/dc.xsd": "dc/dc.xsd",
    "http://dublincore.org/schemas/xmls/qdc/2003/04/02/dcterms.xsd": "dc/dcterms.xsd",
}


class _Resolver(etree.Resolver):
    def resolve(self, url, pubid, ctx):
        if url in _DC:
            return self.resolve_filename(os.path.join(SCHEMAS, _DC[url]), ctx)
        return None


_cache: dict[str, etree.XMLSchema] = {}


def schema(relpath: str) -> etree.XMLSchema:
    s = _cache.get(relpath)
    if s is None:
        p = etree.XMLParser()
        p.resolvers.add(_Resolver())
        doc = etree.parse(os.path.join(SCHEMAS, relpath), p)
        for imp in doc.getroot().iter("{http://www.w3.org/2001/XMLSchema}import"):
            if (imp.get("namespace") == "http://www.w3.org/XML/1998/namespace"
                    and not imp.get("schemaLocation")):
                imp.set("schemaLocation", os.path.join(SCHEMAS, "dc/xml.xsd"))
        s = _cache[relpath] = etree.XMLSchema(doc)
    return s


def preload():
    for _k, (_n, rel) in ROOT_NS_TO_SCHEMA.items():
        schema(rel)


# ---- markup compatibility -------------------------------------------------------------------------

def mce_preprocess(root):
    """Return a copy of `root` with MCE applied: ignorable namespaces removed, AlternateContent
    replaced by its Fallback (or dropped)."""
    root = copy.deepcopy(root)
    ignorable: set[str] = set()
    for el in root.iter():
        if not isinstance(el.tag, str):
            continue
        v = el.get("{%s}Ignorable" % NS_MC)
        if v:
            for pfx in v.split():
                uri = el.nsmap.get(pfx)
                if uri:
                    ignorable.add(uri)
    # AlternateContent -> Fallback children
    changed = True
    while changed:
        changed = False
        for ac in list(root.iter("{%s}AlternateContent" % NS_MC)):
            parent = ac.getparent()
            if parent is None:
                continue
            fb = ac.find("{%s}Fallback" % NS_MC)
            idx = parent.index(ac)
            repl = list(fb) if fb is not None else []
            tail = ac.tail
            parent.remove(ac)
            for i, ch in enumerate(repl):
                parent.insert(idx + i, ch)
            if tail and tail.strip():
                pass
            changed = True
            break
    # drop ignorable elements/attributes and mc:* attributes
    for el in list(root.iter()):
        if not isinstance(el.tag, str):
            continue
        q = etree.QName(el)
        if q.namespace in ignorable and el.getparent() is not None:
            el.getparent().remove(el)
            continue
        for k in list(el.attrib):
            if k.startswith("{"):
                ns = k[1:].split("}", 1)[0]
                if ns in ignorable or ns == NS_MC:
                    del el.attrib[k]
    return root


# ---- validation ------------------------------------------------------------------------------------

_NS_RE = re.compile(r"\{([^}]*)\}")
_VAL_RE = re.compile(r"'[^']*' is not")
_VAL2_RE = re.compile(r"The value '[^']*'")
_VAL3_RE = re.compile(r"\[facet '([^']*)'\] The value '[^']*'")
_LEN_RE = re.compile(r"has a length of '\d+'")


def _pfx(m):
    return PREFIX.get(m.group(1), "ns") + ":"


def _norm(msg: str) -> str:
    msg = _NS_RE.sub(_pfx, msg)
    msg = _VAL3_RE.sub(lambda m: "[facet '%s'] The value '?'" % m.group(1), msg)
    msg = _VAL_RE.sub("'?' is not", msg)
    msg = _VAL2_RE.sub("The value '?'", msg)
    msg = _LEN_RE.sub("has a length of '?'", msg)
    # root-cause shaping: a c:plotArea left without any chart element gives a different message
    # depending on which sibling happens to follow; fold them into one signature
    if "c:areaChart, c:area3DChart" in msg and ("This element is not expected" in msg or "Missing child" in msg) \
            and "c:barChart" not in msg.split("Expected")[0]:
        if re.match(r"Element 'c:(catAx|valAx|dateAx|serAx|dTable|spPr|extLst|plotArea)'", msg):
            return "c:plotArea: a chart element (c:areaChart | c:barChart | ...) is required but none is present"
    msg = re.sub(r"Duplicate key-sequence \[[^\]]*\]", "Duplicate key-sequence [?]", msg)
    msg = re.sub(r"No match found for key-sequence \[[^\]]*\]", "No match found for key-sequence [?]", msg)
    return msg


def schema_for_root(root):
    ns = etree.QName(root).namespace
    return ROOT_NS_TO_SCHEMA.get(ns)


def validate_blob(blob: bytes):
    """Return (schema_name | None, sorted set of normalised error signatures).

    schema_name None => no schema for this root (skipped)."""
    try:
        root = etree.fromstring(blob)
    except etree.XMLSyntaxError as e:
        return "wellformed", ["xsd|wellformed|%s" % str(e).split(",")[0]]
    return validate_root(root)


def validate_root(root):
    ent = schema_for_root(root)
    if ent is None:
        return None, []
    name, rel = ent
    sch = schema(rel)
    pre = mce_preprocess(root)
    if sch.validate(pre):
        return name, []
    sigs = set()
    for e in sch.error_log:
        sigs.add("xsd|%s|%s|%s" % (name, e.type_name, _norm(e.message)))
    return name, sorted(sigs)
