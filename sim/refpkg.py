"""Independent reference reader for OPC packages (no pptx import).

zipfile + plain lxml only.  Provides: member list, content-type resolution, relationship items,
RFC 3986 reference resolution (own implementation, no posixpath), reachability from the package
root, and the closure rules used by C02/C06/C15/C16.
"""
from __future__ import annotations

import io
import zipfile

from lxml import etree

NS_CT = "http://schemas.openxmlformats.org/package/2006/content-types"
NS_REL = "http://schemas.openxmlformats.org/package/2006/relationships"
NS_R = "http://schemas.openxmlformats.org/officeDocument/2006/relationships"
RT_OFFICE_DOCUMENT = NS_R + "/officeDocument"
PRESENTATION_MAIN_TYPES = (
    "application/vnd.openxmlformats-officedocument.presentationml.presentation.main+xml",
    "application/vnd.openxmlformats-officedocument.presentationml.template.main+xml",
    "application/vnd.openxmlformats-officedocument.presentationml.slideshow.main+xml",
    "application/vnd.ms-powerpoint.presentation.macroEnabled.main+xml",
)

_PLAIN_PARSER = etree.XMLParser(remove_blank_text=False, resolve_entities=False)


def parse(blob: bytes):
    return etree.fromstring(blob, _PLAIN_PARSER)


# ---- RFC 3986 path resolution ---------------------------------------------------------------

def resolve(source_partname: str, ref: str) -> str:
    """Resolve relative reference `ref` against the part `source_partname` ("/" for the package)."""
    ref = ref.split("#", 1)[0]
    if ref.startswith("/"):
        segs = ref.split("/")[1:]
        stack: list[str] = []
    else:
        base = source_partname.split("/")[1:-1]  # directory segments of the source
        stack = list(base)
        segs = ref.split("/")
    for i, s in enumerate(segs):
        if s == ".":
            continue
        if s == "":
            if i == len(segs) - 1:
                continue
            # empty interior segment: keep as-is is unusual; treat like '.'
            continue
        if s == "..":
            if stack:
                stack.pop()
            continue
        stack.append(s)
    return "/" + "/".join(stack)


def rels_name_for(partname: str) -> str:
    if partname == "/":
        return "/_rels/.rels"
    d, _, f = partname.rpartition("/")
    return "%s/_rels/%s.rels" % (d, f)


def ext_of(partname: str) -> str:
    f = partname.rpartition("/")[2]
    if "." not in f:
        return ""
    return f.rpartition(".")[2]


# ---- reader -----------------------------------------------------------------------------------

class Rel:
    __slots__ = ("source", "rid", "type", "mode", "target_raw", "target")

    def __init__(self, source, rid, type_, mode, target_raw):
        self.source = source
        self.rid = rid
        self.type = type_
        self.mode = mode
        self.target_raw = target_raw
        self.target = target_raw if mode == "External" else resolve(source, target_raw)

    def key(self):
        return (self.rid, self.type, self.mode, self.target)

    def __repr__(self):
        return "Rel(%s %s %s -> %s)" % (self.source, self.rid, self.type.rpartition("/")[2], self.target)


class RefPackage:
    """What an independent reader sees in a zip image."""

    def __init__(self, members: dict[str, bytes], dup_members=()):
        self.members = members  # "/name" -> bytes (last wins if duplicated)
        self.dup_members = list(dup_members)
        self.problems: list[str] = []
        self._load_content_types()
        self._rels_cache: dict[str, list[Rel] | None] = {}
        self._walk()

    # -- construction --
    @classmethod
    def from_bytes(cls, data: bytes) -> "RefPackage":
        z = zipfile.ZipFile(io.BytesIO(data))
        members: dict[str, bytes] = {}
        dups = []
        for info in z.infolist():
            if info.filename.endswith("/"):
                continue
            name = "/" + info.filename
            if name in members:
                dups.append(name)
            members[name] = z.read(info)
        return cls(members, dups)

    @classmethod
    def from_dir(cls, path: str) -> "RefPackage":
        import os
        members = {}
        for root, _dirs, files in os.walk(path):
            for f in files:
                p = os.path.join(root, f)
                name = "/" + os.path.relpath(p, path).replace(os.sep, "/")
                with open(p, "rb") as fh:
                    members[name] = fh.read()
        return cls(members)

    # -- content types --
    def _load_content_types(self):
        self.overrides: dict[str, str] = {}
        self.defaults: dict[str, str] = {}
        self.ct_dups: list[str] = []
        blob = self.members.get("/[Content_Types].xml")
        if blob is None:
            self.problems.append("missing [Content_Types].xml")
            return
        root = parse(blob)
        for el in root:
            if not isinstance(el.tag, str):
                continue
            q = etree.QName(el)
            if q.namespace != NS_CT:
                continue
            if q.localname == "Override":
                k = el.get("PartName", "").lower()
                if k in self.overrides and self.overrides[k] != el.get("ContentType"):
                    self.ct_dups.append("Override " + k)
                self.overrides[k] = el.get("ContentType")
            elif q.localname == "Default":
                k = el.get("Extension", "").lower()
                if k in self.defaults and self.defaults[k] != el.get("ContentType"):
                    self.ct_dups.append("Default " + k)
                self.defaults[k] = el.get("ContentType")

    def content_type(self, partname: str):
        k = partname.lower()
        if k in self.overrides:
            return self.overrides[k]
        e = ext_of(partname).lower()
        return self.defaults.get(e)

    # -- relationships --
    def rels_of(self, source: str):
        if source in self._rels_cache:
            return self._rels_cache[source]
        blob = self.members.get(rels_name_for(source))
        if blob is None:
            self._rels_cache[source] = None
            return None
        root = parse(blob)
        out = []
        for el in root:
            if not isinstance(el.tag, str):
                continue
            if etree.QName(el).localname != "Relationship":
                continue
            out.append(Rel(source, el.get("Id"), el.get("Type"), el.get("TargetMode", "Internal"),
                           el.get("Target")))
        self._rels_cache[source] = out
        return out

    def _walk(self):
        """Reachability from the package root through internal relationships whose target exists."""
        self.reachable: list[str] = []
        self.rels: dict[str, list[Rel]] = {}  # source -> rels (all, incl. dangling and external)
        self.dangling: list[Rel] = []
        seen = set()
        stack = ["/"]
        seen.add("/")
        while stack:
            src = stack.pop()
            rels = self.rels_of(src) or []
            self.rels[src] = rels
            for r in rels:
                if r.mode == "External":
                    continue
                if r.target not in self.members:
                    self.dangling.append(r)
                    continue
                if r.target not in seen:
                    seen.add(r.target)
                    self.reachable.append(r.target)
                    stack.append(r.target)
        self.reachable.sort()

    # -- views --
    def part_names(self):
        """Members that are parts (not content-types item, not rels items)."""
        return sorted(n for n in self.members
                      if n != "/[Content_Types].xml" and not _is_rels_item(n))

    def live_rels(self, source: str):
        """Relationships of `source` minus dangling internal ones, as comparable keys."""
        return sorted(r.key() for r in self.rels.get(source, [])
                      if r.mode == "External" or r.target in self.members)

    def main_part(self):
        for r in self.rels.get("/", []):
            if r.type == RT_OFFICE_DOCUMENT and r.mode != "External":
                return r.target
        return None


def _is_rels_item(name: str) -> bool:
    d, _, f = name.rpartition("/")
    return f.endswith(".rels") and d.endswith("/_rels") or (d == "/_rels" and f == ".rels")


def is_xml_type(ct: str | None, name: str) -> bool:
    if ct is None:
        return False
    return ct.endswith("+xml") or ct in ("application/xml", "text/xml")


# ---- closure rules (C02 & friends) --------------------------------------------------------------

R_ATTRS = ("id", "embed", "link", "pict", "blip", "dm", "lo", "qs", "cs", "href", "topLeft",
           "topRight", "bottomLeft", "bottomRight")


def xml_rid_refs(blob: bytes):
    """Yield (attr_localname, value) for every attribute in the officeDocument relationships
    namespace inside an XML blob."""
    try:
        root = parse(blob)
    except etree.XMLSyntaxError:
        return
    pre = "{%s}" % NS_R
    for el in root.iter():
        if not isinstance(el.tag, str):
            continue
        for k, v in el.attrib.items():
            if k.startswith(pre):
                yield k[len(pre):], v


def closure_problems(pkg: RefPackage, tolerate_refs: set | None = None, require_presentation=True):
    """Return list of (rule, detail) violations of the closure rules.

    tolerate_refs: set of (partname, attr, value) that were already unresolved in the start deck.
    """
    out = []
    tolerate_refs = tolerate_refs or set()
    for n in pkg.dup_members:
        out.append(("dup-member", n))
    for p in pkg.problems:
        out.append(("structure", p))
    for d in pkg.ct_dups:
        out.append(("ctype-conflict", d))
    for n in pkg.part_names():
        if pkg.content_type(n) is None:
            out.append(("no-ctype", n))
    # every internal relationship of every member's rels item targets a present member
    for n in list(pkg.members):
        if not _is_rels_item(n):
            continue
        src = _source_of_rels_item(n)
        if src != "/" and src not in pkg.members:
            continue  # a rels item without its part is not something the property speaks about
        rels = pkg.rels_of(src) or []
        ids = set()
        for r in rels:
            if r.rid in ids:
                out.append(("dup-rid", "%s %s" % (src, r.rid)))
            ids.add(r.rid)
            if r.mode != "External" and r.target not in pkg.members:
                out.append(("dangling-rel", "%s %s -> %s" % (src, r.rid, r.target)))
    # r:* attribute values name a relationship of that part
    for n in pkg.part_names():
        ct = pkg.content_type(n)
        if not is_xml_type(ct, n):
            continue
        ids = {r.rid for r in (pkg.rels_of(n) or [])}
        for attr, val in xml_rid_refs(pkg.members[n]):
            if val == "":
                continue
            if val not in ids and (n, attr, val) not in tolerate_refs:
                out.append(("xml-rid-unresolved", "%s r:%s=%s" % (n, attr, val)))
    if require_presentation:
        mp = pkg.main_part()
        if mp is None:
            out.append(("no-office-document", ""))
        elif pkg.content_type(mp) not in PRESENTATION_MAIN_TYPES:
            out.append(("main-not-presentation", "%s %s" % (mp, pkg.content_type(mp))))
    return out


def unresolved_refs(pkg: RefPackage, include_dangling: bool = False) -> set:
    """(partname, attr, value) of r:* references that name no relationship of their part (and, with
    include_dangling, those naming an internal relationship whose target member is absent)."""
    s = set()
    for n in pkg.part_names():
        if not is_xml_type(pkg.content_type(n), n):
            continue
        rels = pkg.rels_of(n) or []
        ids = {r.rid for r in rels}
        if include_dangling:
            ids -= {r.rid for r in rels if r.mode != "External" and r.target not in pkg.members}
        for attr, val in xml_rid_refs(pkg.members[n]):
            if val and val not in ids:
                s.add((n, attr, val))
    return s


def _source_of_rels_item(name: str) -> str:
    if name == "/_rels/.rels":
        return "/"
    d, _, f = name.rpartition("/")
    return d[: -len("/_rels")] + "/" + f[: -len(".rels")]


# ---- canonical XML ---------------------------------------------------------------------------------

def c14n(blob: bytes, strip_blank=True) -> bytes:
    root = etree.fromstring(blob, etree.XMLParser(remove_blank_text=strip_blank, resolve_entities=False))
    return etree.tostring(root, method="c14n")
