"""Public-API snapshot of a presentation: what a user sees (slides, shapes, text, pictures,
charts, tables, links, notes).  JSON-able, used for live-vs-reopened comparison."""
from __future__ import annotations

import hashlib

_MISSING = "<?>"


def _try(fn, default=_MISSING):
    try:
        return fn()
    except (NotImplementedError, ValueError, KeyError, TypeError, AttributeError, IndexError) as e:
        return "!%s" % type(e).__name__


def _enum(v):
    if v is None:
        return None
    n = getattr(v, "name", None)
    return n if n is not None else (v if isinstance(v, (int, float, str, bool)) else repr(v))


def _f(v):
    """float normalisation so that JSON equality is value equality"""
    if isinstance(v, float):
        if v != v:
            return "nan"
        return repr(v)
    return v


def text_frame_snap(tf, deep=True):
    paras = []
    for p in tf.paragraphs:
        runs = []
        for r in p.runs:
            d = {"t": r.text}
            if deep:
                f = r.font
                d["b"] = f.bold
                d["i"] = f.italic
                d["sz"] = f.size
                d["nm"] = f.name
                d["u"] = _enum(f.underline)
                d["hl"] = _try(lambda: r.hyperlink.address)
            runs.append(d)
        paras.append({"text": p.text, "lvl": p.level, "al": _enum(p.alignment), "runs": runs})
    return paras


def chart_snap(chart):
    d = {"type": _try(lambda: _enum(chart.chart_type))}
    plots = _try(lambda: list(chart.plots))
    if isinstance(plots, str):
        d["plots"] = plots
        return d
    out = []
    for plot in plots:
        pd = {"cls": type(plot).__name__}
        cats = _try(lambda: plot.categories)
        if isinstance(cats, str):
            pd["cats"] = cats
        else:
            pd["cats"] = _try(lambda: [c for c in cats.flattened_labels])
            pd["depth"] = _try(lambda: cats.depth)
        sers = []
        for s in plot.series:
            sd = {"name": _try(lambda: s.name)}
            sd["values"] = _try(lambda: [_f(v) for v in s.values])
            if hasattr(s, "iter_values"):
                pass
            sers.append(sd)
        pd["series"] = sers
        out.append(pd)
    d["plots"] = out
    d["has_legend"] = _try(lambda: chart.has_legend)
    d["has_title"] = _try(lambda: chart.has_title)
    return d


def table_snap(tbl):
    rows = []
    for r in tbl.rows:
        cells = []
        for c in r.cells:
            cells.append({"t": c.text, "o": c.is_merge_origin, "s": c.is_spanned,
                          "sh": c.span_height, "sw": c.span_width})
        rows.append({"h": r.height, "cells": cells})
    return {"rows": rows, "cols": [c.width for c in tbl.columns]}


def action_snap(act):
    tgt = _try(lambda: (act.target_slide.slide_id if act.target_slide is not None else None))
    # the "address" of a jump to a slide is that slide's part name, which the documented renaming on first access of .slides may change
    # between a live deck and its re-opened copy: the slide it leads to (by slide id) is what is compared
    addr = _try(lambda: act.hyperlink.address) if not isinstance(tgt, int) else "(slide %d)" % tgt
    return {"action": _try(lambda: _enum(act.action)), "addr": addr, "target": tgt}


def shape_snap(sh, deep=True):
    d = {"cls": type(sh).__name__, "id": sh.shape_id, "name": sh.name,
         "kind": _try(lambda: _enum(sh.shape_type))}
    d["geom"] = [_try(lambda: sh.left), _try(lambda: sh.top), _try(lambda: sh.width), _try(lambda: sh.height)]
    d["rot"] = _try(lambda: _f(sh.rotation))
    if sh.is_placeholder:
        pf = sh.placeholder_format
        d["ph"] = [pf.idx, _try(lambda: _enum(pf.type))]
    cls = type(sh).__name__
    if cls == "GroupShape":
        d["members"] = [shape_snap(m, deep) for m in sh.shapes]
        return d
    if cls != "GroupShape":
        d["click"] = _try(lambda: action_snap(sh.click_action))
    if sh.has_text_frame:
        d["text"] = _try(lambda: text_frame_snap(sh.text_frame, deep))
    if cls in ("Picture", "PlaceholderPicture", "Movie"):
        img = _try(lambda: sh.image)
        if isinstance(img, str):
            d["image"] = img
        else:
            d["image"] = [img.sha1, img.content_type, img.ext]
        d["crop"] = [_try(lambda: _f(sh.crop_left)), _try(lambda: _f(sh.crop_right)),
                     _try(lambda: _f(sh.crop_top)), _try(lambda: _f(sh.crop_bottom))]
    if cls == "Movie":
        d["media_type"] = _try(lambda: _enum(sh.media_type))
        d["poster"] = _try(lambda: sh.poster_frame.sha1)
    if cls == "Connector":
        d["ends"] = [sh.begin_x, sh.begin_y, sh.end_x, sh.end_y]
    if getattr(sh, "has_chart", False):
        d["chart"] = _try(lambda: chart_snap(sh.chart))
    if getattr(sh, "has_table", False):
        d["table"] = _try(lambda: table_snap(sh.table))
    if cls in ("GraphicFrame", "PlaceholderGraphicFrame") and not getattr(sh, "has_chart", False) \
            and not getattr(sh, "has_table", False):
        def ole():
            of = sh.ole_format
            return [of.prog_id, hashlib.sha1(of.blob).hexdigest(), of.show_as_icon]
        d["ole"] = _try(ole)
    return d


def slide_snap(slide, deep=True):
    d = {"id": slide.slide_id, "name": slide.name,
         "layout": _try(lambda: slide.slide_layout.name),
         "layout_part": _try(lambda: str(slide.slide_layout.part.partname)),
         "shapes": [shape_snap(s, deep) for s in slide.shapes]}
    d["has_notes"] = slide.has_notes_slide
    if d["has_notes"]:
        def notes():
            ns = slide.notes_slide
            tf = ns.notes_text_frame
            return None if tf is None else tf.text
        d["notes"] = _try(notes)
    return d


def snapshot(prs, deep=True):
    """Pure-JSON snapshot (int subclasses such as Length are flattened to int: they do not survive
    copy.deepcopy, e.g. Pt(n) is re-constructed as Pt(emu))."""
    import json
    return json.loads(json.dumps(_snapshot(prs, deep), default=repr))


def _snapshot(prs, deep=True):
    return {
        "size": [prs.slide_width, prs.slide_height],
        "slides": [slide_snap(s, deep) for s in prs.slides],
        "layouts": [[_try(lambda: l.name) for l in m.slide_layouts] for m in prs.slide_masters],
    }


def diff(a, b, path=""):
    """First difference between two JSON-able values as (path, a, b) or None."""
    if type(a) is not type(b):
        return (path, a, b)
    if isinstance(a, dict):
        for k in sorted(set(a) | set(b)):
            if k not in a or k not in b:
                return (path + "/" + str(k), a.get(k, "<absent>"), b.get(k, "<absent>"))
            r = diff(a[k], b[k], path + "/" + str(k))
            if r:
                return r
        return None
    if isinstance(a, list):
        if len(a) != len(b):
            return (path + "/len", len(a), len(b))
        for i, (x, y) in enumerate(zip(a, b)):
            r = diff(x, y, "%s/%d" % (path, i))
            if r:
                return r
        return None
    if a != b:
        return (path, a, b)
    return None


def diff_class(path: str) -> str:
    """Turn a concrete diff path into a root-cause-shaped class: indices removed."""
    import re
    return re.sub(r"/\d+", "/*", path)
