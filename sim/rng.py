"""One integer decides everything: labelled PRNG sub-streams derived from a seed."""
from __future__ import annotations

import hashlib
import random


def derive(*parts) -> int:
    h = hashlib.sha256("/".join(str(p) for p in parts).encode("utf-8")).digest()
    return int.from_bytes(h[:8], "big")


class Streams:
    """rng("label") -> random.Random seeded from (seed, label); adding a draw to one stream
    never shifts another."""

    def __init__(self, seed: int):
        self.seed = seed
        self._s: dict[str, random.Random] = {}

    def __call__(self, label: str) -> random.Random:
        r = self._s.get(label)
        if r is None:
            r = self._s[label] = random.Random(derive(self.seed, label))
        return r


# ---- string alphabets shared by generators -------------------------------------------------

MARKUP = ["&", "<", ">", '"', "'", "]]>", "&amp;", "&#10;", "<![CDATA[", "<a:t>", "</a:t>", "&lt;",
          "<?xml", "-->", "<!--", "&#x0;", "%", "\\", "{", "}"]
WS = [" ", "  ", "\t", " \t "]
ASTRAL = ["\U0001F600", "\U00010348", "\u2028", "\u00e9", "\u4e2d", "\ufffd", "\u200b", "\u0301", "\u00a0", "\ud7ff", "\ue000", "\ufffd"]
WORDS = ["foo", "Bar", "baz qux", "x", "Lorem ipsum", "0", "-1", "NaN", "null", "A1", "Sheet1!$A$1", "@x", "+1", "http://e.x/"]


def xml_text(r: random.Random, maxlen: int = 24, allow_empty: bool = True) -> str:
    """String over the XML Char production (no C0 controls except tab), markup-biased."""
    n = r.choice([0, 1, 1, 2, 3, 5]) if allow_empty else r.choice([1, 1, 2, 3, 5])
    out = []
    for _ in range(n):
        k = r.random()
        if k < 0.35:
            out.append(r.choice(WORDS))
        elif k < 0.6:
            out.append(r.choice(MARKUP))
        elif k < 0.75:
            out.append(r.choice(WS))
        elif k < 0.9:
            out.append(r.choice(ASTRAL))
        else:
            out.append(chr(r.randint(0x20, 0x7E)))
    s = "".join(out)[:maxlen]
    # never end with a lone surrogate half (Python str slicing is by code point, so safe)
    if not s and not allow_empty:
        s = "x"
    return s
