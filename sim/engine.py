"""World, decks, event execution, oracle protocol, event log + digest.

A *trace* is a JSON document: {"property", "seed", "tier", "config", "start": [deck recipes],
"events": [event, ...]}.  Executing a trace draws from no PRNG and reads no real clock: it is a pure
function of the trace and of the code under test.
"""
from __future__ import annotations

import hashlib
import io
import json
import os
import traceback

from . import seams
from .disk import FaultCounters, SimCrash, SimDisk, SimSink, SimSource, scratch_dir

VERIF = os.path.dirname(os.path.dirname(os.path.abspath(__file__)))
DECKS = os.path.join(VERIF, "decks")


class Violation(Exception):
    def __init__(self, sig: str, detail: str = "", clause: str = ""):
        super().__init__(sig)
        self.sig = sig
        self.detail = detail
        self.clause = clause


class HarnessError(Exception):
    pass


def jdump(o) -> str:
    return json.dumps(o, sort_keys=True, ensure_ascii=True, separators=(",", ":"), default=_jdefault)


def _jdefault(o):
    if isinstance(o, bytes):
        return "b:" + hashlib.sha1(o).hexdigest()[:12]
    if isinstance(o, (set, frozenset)):
        return sorted(o)
    if isinstance(o, tuple):
        return list(o)
    return repr(o)


def sha(b: bytes) -> str:
    return hashlib.sha1(b).hexdigest()


class Deck:
    def __init__(self, idx: int):
        self.idx = idx
        self.prs = None              # live Presentation or None (crashed / not opened)
        self.image: bytes | None = None   # last acknowledged save (durable restart point)
        self.image_name = "deck%d.pptx" % idx
        self.start_image: bytes | None = None
        self.handles: dict = {}      # (actor, key) -> proxy
        self.memo: dict = {}         # oracle notes about durable state; rolled back to memo_saved on restart
        self.memo_saved: dict | None = None
        self.saves = 0
        self.torn: list[bytes] = []  # unacknowledged artefacts
        self.alive = False
        self.slides_accessed = False
        self.src_path = None         # real path the deck was opened from, when it was kept (form "path_keep")

    def drop_handles(self):
        self.handles.clear()


class Oracle:
    """Hooks called by the executor. Raise Violation (via world.report) to flag."""

    name = "oracle"

    def on_open(self, world, deck):           # after a deck has been (re)opened
        pass

    def before_event(self, world, ev):
        pass

    def after_event(self, world, ev, outcome):
        pass

    def on_checkpoint(self, world, deck, image: bytes, ev):  # acknowledged save
        pass

    def on_failed_save(self, world, deck, ev, exc):
        pass

    def on_restart(self, world, deck, ev):
        pass

    def at_end(self, world):
        pass


class World:
    def __init__(self, trace: dict, oracles: list, known_sigs=()):
        self.trace = trace
        self.cfg = trace.get("config", {})
        self.oracles = oracles
        self.known_sigs = list(known_sigs)
        self.known_hits: dict[str, int] = {}
        self.clock = seams.CLOCK
        self.clock.reset(self.cfg.get("clock_start", seams.CLOCK_EPOCH))
        # the process time zone is part of the simulated environment (POSIX TZ rule string, no zoneinfo needed)
        tz = self.cfg.get("tz", "UTC")
        if os.environ.get("TZ") != tz:
            import time as _t
            os.environ["TZ"] = tz
            _t.tzset()
        self.disk = SimDisk()
        self.decks: list[Deck] = []
        self.seq = 0
        self.log: list = []
        self.faults = FaultCounters()
        self.probes = FaultCounters()
        self.stats = FaultCounters()
        self.outcomes: list[str] = []
        self.violation: dict | None = None
        self.state_digests: set[str] = set()
        self.scratch: dict = {}      # client-side objects that outlive a deck restart (e.g. ChartData objects)
        self.cur_event_index = -1

    # -- logging (never draws, never reads a real clock) --
    def note(self, **kw):
        self.seq += 1
        kw["seq"] = self.seq
        self.log.append(kw)

    def digest(self) -> str:
        return hashlib.sha256(jdump(self.log).encode()).hexdigest()

    # -- violation reporting --
    def report(self, sig: str, detail: str = "", clause: str = ""):
        """Known-finding signatures are counted and execution continues; anything else stops
        the run."""
        from .findings import match_known
        k = match_known(self.known_sigs, self.trace.get("property"), sig)
        if k is not None:
            self.known_hits[k] = self.known_hits.get(k, 0) + 1
            self.note(kind="known-finding", sig=sig)
            return
        if os.environ.get("VERIF_COLLECT_ALL"):  # development aid: survey all signatures, never a verdict
            self.stats.hit("SIG " + sig)
            if ("SIGSEEN", sig) not in self.state_digests:
                self.state_digests.add(("SIGSEEN", sig))
                self.note(kind="collected", sig=sig, detail=detail[:300], i=self.cur_event_index)
            return
        raise Violation(sig, detail, clause)

    # -- deck lifecycle --
    def deck(self, i: int) -> Deck | None:
        if not self.decks:
            return None
        return self.decks[i % len(self.decks)]

    def open_deck(self, deck: Deck, form: str = "stream", pos: int = 0):
        """(Re)open `deck` from its durable image. form: stream | path | dir"""
        import pptx
        data = deck.image
        assert data is not None
        deck.drop_handles()
        deck.slides_accessed = False
        deck.src_path = None
        if form == "path_keep":
            # the source file stays where it is: later events may save onto it or clobber it
            self.disk.put(deck.image_name, data)
            p = self.disk.materialize(deck.image_name, "-src%d.pptx" % deck.idx)
            deck.prs = pptx.Presentation(p)
            deck.src_path = p
        elif form == "path":
            self.disk.put(deck.image_name, data)
            p = self.disk.materialize(deck.image_name)
            deck.prs = pptx.Presentation(p)
            os.unlink(p)  # the source file may disappear after open: nothing is read lazily
        elif form in ("dir", "dirlink"):
            self.disk.put(deck.image_name, data)
            d = self.disk.materialize_dir(deck.image_name, link=(form == "dirlink"))
            deck.prs = pptx.Presentation(d)
            import shutil
            shutil.rmtree(d, ignore_errors=True)
            shutil.rmtree(d + ".linked", ignore_errors=True)
        else:
            src = SimSource(data, pos=pos, counters=self.faults)
            deck.prs = pptx.Presentation(src)
        deck.alive = True
        if deck.memo_saved is not None:
            import copy
            deck.memo = copy.deepcopy(deck.memo_saved)  # only durable state survives a restart
        for o in self.oracles:
            o.on_open(self, deck)
        if deck.memo_saved is None:
            import copy
            deck.memo_saved = copy.deepcopy(deck.memo)

    def save_deck(self, deck: Deck, sink_kind: str = "seekable", fault: dict | None = None):
        """prs.save(...) through the chosen sink. Returns (acked, image_or_None, exc_or_None)."""
        if sink_kind == "samepath" and not getattr(deck, "src_path", None):
            sink_kind = "path"
        if sink_kind in ("path", "samepath"):
            # "samepath": save onto the very file the deck was opened from
            p = deck.src_path if sink_kind == "samepath" else os.path.join(scratch_dir(), "save-%d.pptx" % deck.idx)
            if sink_kind == "samepath":
                self.probes.hit("saved_onto_the_source_path")
                try:
                    deck.prs.save(p)
                except Exception as e:  # noqa: BLE001
                    return False, None, e
                with open(p, "rb") as f:
                    return True, f.read(), None
            try:
                deck.prs.save(p)
            except Exception as e:  # noqa: BLE001
                if os.path.exists(p):
                    os.unlink(p)
                return False, None, e
            with open(p, "rb") as f:
                img = f.read()
            os.unlink(p)
            return True, img, None
        if sink_kind == "devfull":
            try:
                deck.prs.save("/dev/full")
            except OSError as e:
                self.faults.hit("sink_devfull_enospc")
                return False, None, e
            return True, None, None
        if fault and fault.get("at_frac") is not None:
            # the fault is placed relative to the length of this deck's last complete save (write calls): "near the end of the archive" is
            # where the parts that were edited last are serialised.  Deterministic: the count is part of the run's own history.
            n_prev = getattr(deck, "last_writes", None)
            fault = dict(fault, at=max(1, int(round(fault["at_frac"] * n_prev))) if n_prev else fault.get("at", 1))
        if sink_kind == "reused":
            # the caller keeps ONE seekable stream and saves into it again and again without rewinding: every save appends
            # a complete archive; a zip reader takes the last one
            sink = getattr(deck, "kept_sink", None)
            if sink is None or sink.dead:
                sink = deck.kept_sink = SimSink("seekable", counters=self.faults)
            else:
                self.probes.hit("saved_again_into_the_same_stream")
            sink._fault, sink.fired, sink.writes = fault, False, 0
        else:
            sink = SimSink(sink_kind, fault=fault, counters=self.faults)
        try:
            deck.prs.save(sink)
        except SimCrash:
            deck.torn.append(sink.image())
            raise
        except Exception as e:  # noqa: BLE001
            deck.torn.append(sink.image())
            return False, sink.image(), e
        if fault and sink.fired:
            # a fault fired and save() returned normally: the call swallowed an I/O error
            return True, sink.image(), "swallowed"
        deck.last_writes = sink.writes
        return True, sink.image(), None


# ------------------------------------------------------------------------------------------------


def start_bytes(recipe: dict) -> bytes:
    """Start-deck recipe -> bytes. {"deck": "default" | "<file in /verif/decks>", "xform": [...]}"""
    name = recipe.get("deck", "default")
    if name == "default":
        name = "default.pptx"
    with open(os.path.join(DECKS, name), "rb") as f:
        data = f.read()
    for x in recipe.get("xform", []):
        from . import pkgxform
        data = pkgxform.apply(data, x)
    return data


def execute(trace: dict, oracles: list, known_sigs=(), collect_log=True) -> dict:
    """Run one trace. Returns result dict:
    {violation: None | {sig, detail, clause, event_index}, digest, outcomes, faults, probes, stats,
     known_hits, n_events, error: None | str}
    """
    from . import ops as opsmod

    w = World(trace, oracles, known_sigs)
    res = {"violation": None, "error": None}
    try:
        for i, recipe in enumerate(trace.get("start", [{"deck": "default"}])):
            d = Deck(i)
            d.image = d.start_image = start_bytes(recipe)
            w.decks.append(d)
            w.open_deck(d, recipe.get("form", "stream"), recipe.get("pos", 0))
            w.note(kind="open", deck=i, sha=sha(d.image)[:12])
        for idx, ev in enumerate(trace["events"]):
            w.cur_event_index = idx
            dt = ev.get("dt")
            if dt:
                w.clock.advance(dt)
            for o in oracles:
                o.before_event(w, ev)
            outcome = opsmod.run_event(w, ev)
            w.outcomes.append(outcome)
            w.note(kind="ev", i=idx, op=ev["op"], out=outcome)
            for o in oracles:
                o.after_event(w, ev, outcome)
        w.cur_event_index = len(trace["events"])
        for o in oracles:
            o.at_end(w)
    except Violation as v:
        res["violation"] = {"sig": v.sig, "detail": v.detail[:4000], "clause": v.clause,
                            "event_index": w.cur_event_index}
        w.note(kind="violation", sig=v.sig)
    except SimCrash:
        res["error"] = "unhandled SimCrash"
    except HarnessError as e:
        res["error"] = "harness: %s" % e
    except Exception as e:  # noqa: BLE001
        # An exception that escapes here comes from a read, a re-open or an oracle - operations that may be refused are handled in
        # run_event.  If the INNERMOST frame is python-pptx's (the library raised while being read or re-opened, and nothing of the
        # harness is between that frame and the raise) it is a verdict about the library; anything else is a harness bug, never a verdict.
        tb = traceback.extract_tb(e.__traceback__)
        site = None
        if tb and ("/pptx/" in tb[-1].filename) and "/verif/" not in tb[-1].filename:
            site = "%s:%s" % (tb[-1].filename.rpartition("/pptx/")[2], tb[-1].name)
        if site is not None and not isinstance(e, (MemoryError, RecursionError)):
            ev_ = trace["events"][w.cur_event_index]["op"] if 0 <= w.cur_event_index < len(trace["events"]) else "end"
            sig = "library-raised-while-read-or-re-opened|%s|%s" % (type(e).__name__, site)
            k = None
            try:
                w.report(sig, "during %s\n%s" % (ev_, traceback.format_exc()[-2500:]),
                         "(every clause is observed through the public read API and by re-opening saved files: these must not raise)")
            except Violation as v:
                res["violation"] = {"sig": v.sig, "detail": v.detail[:4000], "clause": v.clause, "event_index": w.cur_event_index}
                w.note(kind="violation", sig=v.sig)
        else:
            res["error"] = "harness exception:\n" + traceback.format_exc()[-3000:]
    res["digest"] = w.digest()
    res["outcomes"] = w.outcomes
    res["faults"] = dict(w.faults)
    res["probes"] = dict(w.probes)
    res["stats"] = dict(w.stats)
    res["known_hits"] = dict(w.known_hits)
    res["n_events"] = len(trace["events"])
    res["sim_seconds"] = w.clock.elapsed
    res["clock_jumps"] = w.clock.jumps
    res["clock_back_jumps"] = w.clock.back_jumps
    res["states"] = sorted(x for x in w.state_digests if isinstance(x, str))
    if collect_log:
        res["log"] = w.log
    return res
