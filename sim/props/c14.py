"""C14 - tables stay rectangular and merges consistent under any merge/split sequence."""
from __future__ import annotations

import hashlib

from .. import ops as O
from ..engine import Oracle
from ..rng import Streams, xml_text
from . import common

ID = "C14"
LEVEL = "exploration"
RULE = ("seeded histories on tables created with r,c in 1..6 (thorough 1..12) and sizes not divisible by the counts: "
        "merge (any corner pair/orientation, overlapping, cross-table), split (origin and non-origin), cell text, row "
        "height / column width, with _Cell handles held across operations, checkpoints and restarts; plus a deterministic "
        "sweep of every single merge (all corner pairs) followed by split on every table shape up to 4x4; oracle = grid "
        "reference model (disjoint rectangles, spans, refused operations leave the slide part byte-identical, text "
        "migration in reading order, frame size = sums); non-trivial = >=2 accepted merges/splits or >=1 refused one, "
        "with the grid verified; distinct = distinct event-log digest")
ASSUMPTIONS = [
    "the statement's bounded-exhaustive depth-3 sweep is NOT claimed (that is model checking); depth-1 single merges on all "
    "shapes <=4x4 are swept deterministically in both tiers, every ordered pair of merges on all shapes <=3x3 in the "
    "thorough tier; deeper sequences are sampled",
    "'all text present before a merge is in the origin afterwards in reading order' is checked on the sequence of non-empty "
    "paragraph texts",
    "refused merge/split = ValueError and the slide part's serialisation is byte-identical before and after",
]
CLAUSES = {
    "create": "A table created with r rows and c columns has r rows of exactly c cells, column widths summing to the "
              "requested width and row heights to the requested height",
    "grid": "After any sequence of merges and splits every row still has c cells, merged regions are disjoint rectangles "
            "whose origin reports their span and whose other cells report as spanned",
    "refuse": "a merge overlapping an existing merged region or reaching into another table is refused and changes nothing",
    "split": "split restores independent cells",
    "text": "all text present before a merge is in the origin cell afterwards in reading order",
    "size": "changing a row height or column width keeps the frame size equal to the sum",
    "persist": "(re-read after save/re-open) the same grid is read after saving and re-opening",
}


def _memo(deck):
    return deck.memo.setdefault("c14", {})


def _key(sl, sh):
    return "%d|%d" % (sl.slide_id, sh.shape_id)


def _tables(w, deck, a):
    sls = O.slides_of(deck)
    out = []
    for sl in sls:
        for sh in O.walk_shapes(sl.shapes):
            if getattr(sh, "has_table", False) and _key(sl, sh) in _memo(deck):
                out.append((sl, sh))
    return out


def _pick_table(w, deck, a):
    ts = _tables(w, deck, a)
    if not ts:
        raise O.Skip("no modelled table")
    sl, sh = ts[a.get("table", 0) % len(ts)]
    tbl = sh.table
    if a.get("held"):
        # the Table object itself is kept by the caller across edits
        k = ("c14table", sl.slide_id, sh.shape_id)
        if k in deck.handles:
            tbl = deck.handles[k]
            w.stats.hit("c14_kept_table_object_used")
        else:
            deck.handles[k] = tbl
    return sl, sh, tbl, _memo(deck)[_key(sl, sh)]


def _cell(deck, sh, tbl, r, c, held):
    if held:
        k = ("c14cell", str(sh.part.partname), sh.shape_id, r, c)     # shape ids are only unique within one slide
        h = deck.handles.get(k)
        if h is not None:
            return h
        deck.handles[k] = tbl.cell(r, c)
        return deck.handles[k]
    return tbl.cell(r, c)


def _rect_of(m, r, c):
    for (t, l, h, w_) in m["rects"]:
        if t <= r < t + h and l <= c < l + w_:
            return (t, l, h, w_)
    return None


def verify_grid(w, tbl, sh, m, when):
    """Compare every public reading of the table with the grid model."""
    R, C = m["rows"], m["cols"]
    rows = list(tbl.rows)
    if len(rows) != R or len(tbl.columns) != C:
        w.report("grid|dimension|%s" % when, "rows=%d cols=%d model=%dx%d" % (len(rows), len(tbl.columns), R, C), CLAUSES["grid"])
        return
    for i, row in enumerate(rows):
        cells = list(row.cells)
        if len(cells) != C:
            w.report("grid|row-cell-count|%s" % when, "row %d has %d cells, expected %d" % (i, len(cells), C), CLAUSES["grid"])
            return
        for j, cell in enumerate(cells):
            rect = _rect_of(m, i, j)
            exp_origin = rect is not None and (rect[0], rect[1]) == (i, j)
            exp_spanned = rect is not None and not exp_origin
            if cell.is_merge_origin != exp_origin:
                w.report("grid|is_merge_origin|%s|expected=%s" % (when, exp_origin), "cell (%d,%d) rect=%r rects=%r" % (i, j, rect, m["rects"]), CLAUSES["grid"])
            if cell.is_spanned != exp_spanned:
                w.report("grid|is_spanned|%s|expected=%s" % (when, exp_spanned), "cell (%d,%d) rect=%r rects=%r" % (i, j, rect, m["rects"]), CLAUSES["grid"])
            if exp_origin and (cell.span_height, cell.span_width) != (rect[2], rect[3]):
                w.report("grid|span|%s" % when, "cell (%d,%d) span=(%d,%d) model=%r" % (i, j, cell.span_height, cell.span_width, rect), CLAUSES["grid"])
            if rect is None and (cell.span_height, cell.span_width) != (1, 1):
                w.report("grid|span-on-independent-cell|%s" % when, "cell (%d,%d) span=(%d,%d)" % (i, j, cell.span_height, cell.span_width), CLAUSES["split"])
    sw = sum(int(c.width) for c in tbl.columns)
    shh = sum(int(r.height) for r in tbl.rows)
    # frame size == sums holds from creation on; if the history resized the graphic frame itself (c14.frame_geom) that
    # dimension is only asserted again after the next column-width / row-height change (which must re-sync it)
    if m.get("check_w", True) and int(sh.width) != sw:
        w.report("size|width|%s" % when, "frame width %d != sum of column widths %d" % (sh.width, sw), CLAUSES["size"])
    if m.get("check_h", True) and int(sh.height) != shh:
        w.report("size|height|%s" % when, "frame height %d != sum of row heights %d" % (sh.height, shh), CLAUSES["size"])
    w.stats.hit("c14_grid_verified")


def _blob_hash(sl):
    return hashlib.sha1(sl.part.blob).hexdigest()


def _paras(cell):
    return [p.text for p in cell.text_frame.paragraphs]


# ---- ops -----------------------------------------------------------------------------------------------------

def g_tbl(r, maxdim=6):
    return {"table": r.randint(0, 3), "r": r.randint(0, maxdim - 1), "c": r.randint(0, maxdim - 1),
            "r2": r.randint(0, maxdim - 1), "c2": r.randint(0, maxdim - 1), "held": r.random() < 0.5}


@O.op("c14.add_table", "c14", weight=1.0)
@O.gen(lambda r: dict(O.g_sl(r), rows=r.randint(1, 6), cols=r.randint(1, 6),
                      # a few bases plus a small offset: tables of one run (and of one process) share per-cell quotients and differ in remainders
                      w=r.choice([1, 7, 100, 914400 + r.randint(0, 6), 3000000 + r.randint(0, 6), r.randint(1, 9000000)]),
                      h=r.choice([1, 5, 99, 914400 + r.randint(0, 6), 2000000 + r.randint(0, 6), r.randint(1, 5000000)]),
                      x=O.emu(r), y=O.emu(r), via=r.choice(["shapes"] * 5 + ["placeholder"])))
def _c14_add(w, deck, a):
    sl = O.nav_slide(w, deck, a)
    if len(_tables(w, deck, a)) >= 4:
        raise O.Skip("enough tables")
    R, C, W, H = a["rows"], a["cols"], a["w"], a["h"]
    if a.get("via") == "placeholder":
        # TablePlaceholder.insert_table(rows, cols): position and width come from the placeholder, row heights are the library's default
        try:
            sl, ph = O.nav_placeholder(w, deck, a, "insert_table")
        except O.Skip:
            ph = None
        if ph is not None:
            gf = ph.insert_table(R, C)
            tbl = gf.table
            if len(tbl.rows) != R or any(len(list(row.cells)) != C for row in tbl.rows) or len(tbl.columns) != C:
                w.report("create|shape", "%dx%d requested through a table placeholder, got %dx%d" % (R, C, len(tbl.rows), len(tbl.columns)), CLAUSES["create"])
            m = {"rows": R, "cols": C, "rects": [], "check_w": int(gf.width) == sum(int(c_.width) for c_ in tbl.columns),
                 "check_h": int(gf.height) == sum(int(r_.height) for r_ in tbl.rows)}
            _memo(deck)[_key(sl, gf)] = m
            verify_grid(w, tbl, gf, m, "after-create")
            w.stats.hit("c14_tables")
            w.stats.hit("c14_tables_through_placeholder")
            return
    gf = sl.shapes.add_table(R, C, a["x"], a["y"], W, H)
    tbl = gf.table
    m = {"rows": R, "cols": C, "rects": [], "check_w": True, "check_h": True}
    if len(tbl.rows) != R or any(len(list(row.cells)) != C for row in tbl.rows) or len(tbl.columns) != C:
        w.report("create|shape", "%dx%d requested" % (R, C), CLAUSES["create"])
    sw = sum(int(c.width) for c in tbl.columns)
    shh = sum(int(r_.height) for r_ in tbl.rows)
    if sw != W:
        w.report("create|column-widths-sum", "requested %d sum %d (%dx%d)" % (W, sw, R, C), CLAUSES["create"])
    if shh != H:
        w.report("create|row-heights-sum", "requested %d sum %d (%dx%d)" % (H, shh, R, C), CLAUSES["create"])
    if any(int(c.width) < 0 for c in tbl.columns) or any(int(r_.height) < 0 for r_ in tbl.rows):
        w.report("create|negative-dimension", "", CLAUSES["create"])
    _memo(deck)[_key(sl, gf)] = m
    verify_grid(w, tbl, gf, m, "after-create")
    w.stats.hit("c14_tables")


@O.op("c14.merge", "c14", weight=5.0)
@O.gen(lambda r: g_tbl(r))
def _c14_merge(w, deck, a):
    sl, sh, tbl, m = _pick_table(w, deck, a)
    R, C = m["rows"], m["cols"]
    r1, c1, r2, c2 = a["r"] % R, a["c"] % C, a["r2"] % R, a["c2"] % C
    top, left, h, wd = min(r1, r2), min(c1, c2), abs(r1 - r2) + 1, abs(c1 - c2) + 1
    overlap = any(_rect_of(m, i, j) is not None for i in range(top, top + h) for j in range(left, left + wd))
    cells_pre = [[_paras(tbl.cell(i, j)) for j in range(left, left + wd)] for i in range(top, top + h)]
    before = _blob_hash(sl)
    a_cell = _cell(deck, sh, tbl, r1, c1, a.get("held"))
    b_cell = _cell(deck, sh, tbl, r2, c2, a.get("held"))
    try:
        a_cell.merge(b_cell)
        refused = False
    except ValueError:
        refused = True
    if overlap:
        if not refused:
            w.report("refuse|overlapping-merge-accepted", "range (%d,%d,%d,%d) rects=%r" % (top, left, h, wd, m["rects"]), CLAUSES["refuse"])
        elif _blob_hash(sl) != before:
            w.report("refuse|refused-merge-changed-the-part", "range (%d,%d,%d,%d)" % (top, left, h, wd), CLAUSES["refuse"])
        w.stats.hit("c14_refused_merges")
        verify_grid(w, tbl, sh, m, "after-refused-merge")
        return "rejected:ValueError"
    if refused:
        w.report("grid|legal-merge-refused", "range (%d,%d,%d,%d) rects=%r" % (top, left, h, wd, m["rects"]), CLAUSES["grid"])
        return "rejected:ValueError"
    if h * wd > 1:
        m["rects"].append([top, left, h, wd])
    # text migration: non-empty paragraphs of the range in reading order are now in the origin; others empty
    want = [t for row in cells_pre for paras in row for t in paras if t != ""]
    got = [t for t in _paras(tbl.cell(top, left)) if t != ""]
    if got != want:
        w.report("text|merge-migration|%s" % ("lost" if len(got) < len(want) else ("extra" if len(got) > len(want) else "order-or-content")),
                 "want=%r got=%r" % (want, got), CLAUSES["text"])
    for i in range(top, top + h):
        for j in range(left, left + wd):
            if (i, j) != (top, left) and tbl.cell(i, j).text != "":
                w.report("text|spanned-cell-not-empty", "cell (%d,%d)=%r" % (i, j, tbl.cell(i, j).text), CLAUSES["text"])
    w.stats.hit("c14_merges")
    verify_grid(w, tbl, sh, m, "after-merge")


@O.op("c14.split", "c14", weight=3.0)
@O.gen(lambda r: g_tbl(r))
def _c14_split(w, deck, a):
    sl, sh, tbl, m = _pick_table(w, deck, a)
    R, C = m["rows"], m["cols"]
    if a.get("origin") and m["rects"]:
        t, l, _h, _w = m["rects"][a["r"] % len(m["rects"])]
        r1, c1 = t, l
    else:
        r1, c1 = a["r"] % R, a["c"] % C
    rect = _rect_of(m, r1, c1)
    is_origin = rect is not None and (rect[0], rect[1]) == (r1, c1)
    before = _blob_hash(sl)
    cell = _cell(deck, sh, tbl, r1, c1, a.get("held"))
    try:
        cell.split()
        refused = False
    except ValueError:
        refused = True
    if is_origin:
        if refused:
            w.report("split|origin-split-refused", "cell (%d,%d) rect=%r" % (r1, c1, rect), CLAUSES["split"])
            return "rejected:ValueError"
        m["rects"].remove(list(rect))
        w.stats.hit("c14_splits")
        verify_grid(w, tbl, sh, m, "after-split")
        return
    if not refused:
        w.report("refuse|non-origin-split-accepted", "cell (%d,%d) rect=%r" % (r1, c1, rect), CLAUSES["refuse"])
    elif _blob_hash(sl) != before:
        w.report("refuse|refused-split-changed-the-part", "cell (%d,%d)" % (r1, c1), CLAUSES["refuse"])
    w.stats.hit("c14_refused_splits")
    verify_grid(w, tbl, sh, m, "after-refused-split")
    return "rejected:ValueError"


@O.op("c14.cell_text", "c14", weight=3.0)
@O.gen(lambda r: dict(g_tbl(r), text=r.choice(["", "x", xml_text(r, 10), "a\nb", "l1\n\nl3", "p\vq", "\nfirst paragraph empty", "\n\nz", "last empty\n", "\n"])))
def _c14_text(w, deck, a):
    sl, sh, tbl, m = _pick_table(w, deck, a)
    _cell(deck, sh, tbl, a["r"] % m["rows"], a["c"] % m["cols"], a.get("held")).text = a["text"]
    verify_grid(w, tbl, sh, m, "after-cell-text")


@O.op("c14.resize", "c14", weight=2.0)
@O.gen(lambda r: dict(g_tbl(r), what=r.choice(["row", "col"]), v=r.choice([0, 1, 914400, 914400, 300000, r.randint(0, 4000000)])))
def _c14_resize(w, deck, a):
    sl, sh, tbl, m = _pick_table(w, deck, a)
    if a["what"] == "row":
        tbl.rows[a["r"] % m["rows"]].height = a["v"]
        m["check_h"] = True
    else:
        tbl.columns[a["c"] % m["cols"]].width = a["v"]
        m["check_w"] = True
    w.stats.hit("c14_resizes")
    verify_grid(w, tbl, sh, m, "after-resize")


@O.op("c14.frame_geom", "c14", weight=1.0)
@O.gen(lambda r: dict(g_tbl(r), what=r.choice(["width", "height"]), v=r.choice([1, 914400, r.randint(1, 6000000)])))
def _c14_frame(w, deck, a):
    """The caller resizes the graphic frame itself; the table grid is untouched and the next column/row change re-syncs."""
    sl, sh, tbl, m = _pick_table(w, deck, a)
    setattr(sh, a["what"], a["v"])
    m["check_w" if a["what"] == "width" else "check_h"] = False
    w.stats.hit("c14_frame_resized")
    verify_grid(w, tbl, sh, m, "after-frame-resize")


@O.op("c14.merge_other_table", "c14", weight=1.0)
@O.gen(lambda r: g_tbl(r))
def _c14_other(w, deck, a):
    ts = _tables(w, deck, a)
    if len(ts) < 2:
        raise O.Skip("need two tables")
    (sl1, sh1), (sl2, sh2) = ts[a["table"] % len(ts)], ts[(a["table"] + 1) % len(ts)]
    m1, m2 = _memo(deck)[_key(sl1, sh1)], _memo(deck)[_key(sl2, sh2)]
    h1, h2 = _blob_hash(sl1), _blob_hash(sl2)
    try:
        sh1.table.cell(a["r"] % m1["rows"], a["c"] % m1["cols"]).merge(sh2.table.cell(a["r2"] % m2["rows"], a["c2"] % m2["cols"]))
        w.report("refuse|cross-table-merge-accepted", "", CLAUSES["refuse"])
    except ValueError:
        pass
    if (_blob_hash(sl1), _blob_hash(sl2)) != (h1, h2):
        w.report("refuse|refused-cross-table-merge-changed-a-part", "", CLAUSES["refuse"])
    w.stats.hit("c14_refused_merges")
    verify_grid(w, sh1.table, sh1, m1, "after-cross-table")
    verify_grid(w, sh2.table, sh2, m2, "after-cross-table")
    return "rejected:ValueError"


class GridOracle(Oracle):
    name = "c14"

    def _verify_all(self, w, deck, prs, when):
        m = _memo(deck)
        for k in sorted(m):
            sid, shid = map(int, k.split("|"))
            sl = prs.slides.get(sid)
            sh = None
            if sl is not None:
                for s in O.walk_shapes(sl.shapes):
                    if s.shape_id == shid and getattr(s, "has_table", False):
                        sh = s
            if sh is None:
                w.report("persist|table-gone|%s" % when, k, CLAUSES["persist"])
                continue
            verify_grid(w, sh.table, sh, m[k], when)

    def on_checkpoint(self, w, deck, image, ev):
        import pptx
        from ..disk import SimSource
        self._verify_all(w, deck, pptx.Presentation(SimSource(image)), "reopened-at-checkpoint")

    def on_restart(self, w, deck, ev):
        self._verify_all(w, deck, deck.prs, "after-restart")
        w.stats.hit("c14_restart_checks")

    def after_event(self, w, ev, outcome):
        # generic geometry ops may resize the graphic frame independently of the grid: stop asserting frame size
        if ev["op"] == "set_geom" and outcome == "ok":
            for deck in w.decks:
                for m in _memo(deck).values():
                    m["check_w"] = m["check_h"] = False


def plan(tier):
    if tier == "quick":
        return {"runs": 2500, "budget_s": 75, "chunk": 12}
    return {"runs": 60000, "budget_s": 780, "chunk": 20}


def gen_trace(seed: int, tier: str) -> dict:
    S = Streams(seed)
    r = S("config")
    thorough = tier == "thorough"
    n = r.randint(10, 35) if not thorough else r.randint(20, 90)
    maxdim = 6 if not thorough else 12
    events, sw = common.gen_history(
        seed, fault_rate=common.fault_arm(seed), n_events=n, families=["c14"], always=("c14",), ckpt=0.05, reopen=0.06, restart=0.03, observe=0.02,
        jump=0.0, fork=0.03, warmup=False)
    r2 = S("dims")
    pre = [{"op": "add_slide", "layout": 6, "dt": 1.0}]
    for _ in range(r2.choice([1, 1, 2])):
        e = O.gen_op_event(r2, "c14.add_table")
        if thorough and r2.random() < 0.4:
            e["rows"], e["cols"] = r2.randint(1, 12), r2.randint(1, 12)
        e["dt"] = 1.0
        pre.append(e)
    for e in events:
        if e["op"].startswith("c14.") and "r" in e:
            for k in ("r", "c", "r2", "c2"):
                if k in e:
                    e[k] = r2.randint(0, maxdim - 1)
            if e["op"] == "c14.split":
                e["origin"] = r2.random() < 0.6
            if e["op"] == "c14.merge" and r2.random() < 0.5:
                # bias towards small ranges so that several disjoint merges can coexist
                e["r2"] = e["r"] + r2.choice([0, 0, 1, 1, 2])
                e["c2"] = e["c"] + r2.choice([0, 1, 1, 2])
    # between the sessions the file is rewritten by a producer that omits the optional a:tblPr / a:txBody of empty cells, or spells
    # booleans (hMerge, vMerge, firstRow ...) as words
    common.rewritten_between_sessions(seed, events, rate=0.35)
    rs_ = S("start")
    if rs_.random() < 0.15:
        # a deck whose layout 4 carries a TABLE placeholder: tables are created through it
        pre = [{"op": "add_slide", "layout": 4, "dt": 1.0}, {"op": "add_slide", "layout": 4, "dt": 1.0}] + pre
        for e in pre + events:
            if e["op"] == "c14.add_table" and rs_.random() < 0.7:
                e["via"] = "placeholder"
        return {"property": ID, "seed": seed, "tier": tier, "config": {"max_slides": 6, "max_shapes": 12},
                "start": [{"deck": "f-ph-unpopulated-placeholders.pptx"}], "events": pre + events}
    return {"property": ID, "seed": seed, "tier": tier, "config": {"max_slides": 4, "max_shapes": 12},
            "start": [{"deck": "default"}], "events": pre + events}


def make_oracles(trace):
    return [GridOracle()]


def nontrivial(trace, res):
    st = res["stats"]
    return (st.get("c14_merges", 0) + st.get("c14_splits", 0) >= 2 or st.get("c14_refused_merges", 0) >= 1) \
        and st.get("c14_grid_verified", 0) >= 3


def _depth2_sweep():
    """Thorough tier: every ORDERED PAIR of merges (all corner pairs x all corner pairs) on every table shape up to 3x3,
    each pair followed by splitting whatever got merged (so the next pair starts from a clean grid again), and every
    merge -> split(non-origin / origin) -> merge triple on shapes up to 2x3.  A complete enumeration of that finite space."""
    out = []
    for R in range(1, 4):
        for C in range(1, 4):
            cells = [(r, c) for r in range(R) for c in range(C)]
            pairs = [(a, b) for a in cells for b in cells]
            evs = [{"op": "add_slide", "layout": 6},
                   {"op": "c14.add_table", "slide": 0, "rows": R, "cols": C, "w": 900001, "h": 500003, "x": 0, "y": 0}]
            n = 0
            for (a, b) in pairs:
                for (c_, d) in pairs:
                    evs.append({"op": "c14.merge", "table": 0, "r": a[0], "c": a[1], "r2": b[0], "c2": b[1]})
                    evs.append({"op": "c14.merge", "table": 0, "r": c_[0], "c": c_[1], "r2": d[0], "c2": d[1], "held": n % 2 == 0})
                    # undo: split every merged region (at most two exist)
                    evs.append({"op": "c14.split", "table": 0, "r": 0, "c": 0, "origin": True})
                    evs.append({"op": "c14.split", "table": 0, "r": 0, "c": 0, "origin": True})
                    n += 1
                    if n % 400 == 0:
                        evs.append({"op": "reopen", "sink": "seekable", "form": "stream"})
            evs += [{"op": "checkpoint", "sink": "seekable"}, {"op": "restart"}]
            out.append({"property": ID, "seed": "depth2-%dx%d" % (R, C), "tier": "pinned", "config": {"pinned": True},
                        "start": [{"deck": "default"}], "events": evs})
    return out


def pinned_traces(tier):
    """Deterministic sweep: every single merge (all ordered corner pairs) then split, on every shape <= 4x4
    (thorough: additionally every ordered pair of merges on every shape <= 3x3)."""
    out = _depth2_sweep() if tier == "thorough" else []
    for R in range(1, 5):
        for C in range(1, 5):
            evs = [{"op": "add_slide", "layout": 6},
                   {"op": "c14.add_table", "slide": 0, "rows": R, "cols": C, "w": 1000003, "h": 700001, "x": 0, "y": 0}]
            k = 0
            for r1 in range(R):
                for c1 in range(C):
                    for r2 in range(R):
                        for c2 in range(C):
                            evs.append({"op": "c14.cell_text", "table": 0, "r": r1, "c": c1, "text": "A%d" % k, "held": k % 2 == 0})
                            evs.append({"op": "c14.cell_text", "table": 0, "r": r2, "c": c2, "text": "B%d\nB" % k})
                            evs.append({"op": "c14.merge", "table": 0, "r": r1, "c": c1, "r2": r2, "c2": c2, "held": k % 2 == 0})
                            # a second, overlapping merge must be refused
                            evs.append({"op": "c14.merge", "table": 0, "r": r2, "c": c2, "r2": 0, "c2": 0})
                            evs.append({"op": "c14.split", "table": 0, "r": 0, "c": 0, "origin": True, "held": k % 3 == 0})
                            k += 1
                            if k % 40 == 0:
                                evs.append({"op": "reopen", "sink": "seekable", "form": "stream"})
            evs.append({"op": "checkpoint", "sink": "seekable"})
            evs.append({"op": "restart"})
            out.append({"property": ID, "seed": "sweep-%dx%d" % (R, C), "tier": "pinned", "config": {"pinned": True},
                        "start": [{"deck": "default"}], "events": evs})
    evs = [{"op": "add_slide", "layout": 6}, {"op": "c14.add_table", "slide": 0, "rows": 3, "cols": 3, "w": 900000, "h": 600000, "x": 0, "y": 0},
           {"op": "c14.cell_text", "table": 0, "r": 1, "c": 0, "text": "a"}, {"op": "checkpoint", "sink": "seekable"},
           {"op": "restart", "xform": [{"kind": "rewrite_slides", "how": "strip_tblPr"}]},
           {"op": "c14.merge", "table": 0, "r": 1, "c": 0, "r2": 2, "c2": 1}, {"op": "c14.merge", "table": 0, "r": 0, "c": 0, "r2": 0, "c2": 2},
           {"op": "c14.merge", "table": 0, "r": 2, "c": 2, "r2": 1, "c2": 2}, {"op": "c14.split", "table": 0, "r": 1, "c": 0}, {"op": "c14.split", "table": 0, "r": 2, "c": 1},
           {"op": "checkpoint", "sink": "seekable"}, {"op": "restart"}]
    out.append({"property": ID, "seed": "table-without-tblPr", "tier": "pinned", "config": {"pinned": True}, "start": [{"deck": "default"}], "events": evs})
    # cells whose FIRST paragraph is empty (text starting with a line feed), as origin and as non-origin of a merge
    evs = [{"op": "add_slide", "layout": 6}, {"op": "c14.add_table", "slide": 0, "rows": 3, "cols": 3, "w": 900000, "h": 600000, "x": 0, "y": 0}]
    for k, (o_, n_) in enumerate((("\norigin", "plain"), ("plain", "\nhidden"), ("\n", "\nx\n"), ("", "\n\ndeep"))):
        evs += [{"op": "c14.cell_text", "table": 0, "r": 0, "c": 0, "text": o_}, {"op": "c14.cell_text", "table": 0, "r": 1, "c": 1, "text": n_},
                {"op": "c14.cell_text", "table": 0, "r": 0, "c": 1, "text": "mid %d" % k},
                {"op": "c14.merge", "table": 0, "r": 0, "c": 0, "r2": 1, "c2": 1}, {"op": "checkpoint", "sink": "seekable"}, {"op": "c14.split", "table": 0, "r": 0, "c": 0}]
    evs += [{"op": "restart"}]
    out.append({"property": ID, "seed": "first-paragraph-empty", "tier": "pinned", "config": {"pinned": True}, "start": [{"deck": "default"}], "events": evs})
    # merged regions stored with hMerge / vMerge spelled "true": overlapping merges that touch the region only through cells that carry no
    # span of their own (right column, bottom row, interior) are refused all the same
    for (r0, c0, r1, c1) in ((0, 0, 2, 2), (0, 0, 0, 3), (0, 0, 3, 0)):
        evs = [{"op": "add_slide", "layout": 6}, {"op": "c14.add_table", "slide": 0, "rows": 4, "cols": 4, "w": 900000, "h": 600000, "x": 0, "y": 0},
               {"op": "c14.cell_text", "table": 0, "r": 3, "c": 3, "text": "z"},
               {"op": "c14.merge", "table": 0, "r": r0, "c": c0, "r2": r1, "c2": c1}, {"op": "checkpoint", "sink": "seekable"},
               {"op": "restart", "xform": [{"kind": "rewrite_slides", "how": "bool_words"}]}]
        for (a_, b_, c_, d_) in ((r1, c1, 3, 3), (r1, c1, r1, 3), (r1, c1, 3, c1), (max(r1 - 1, 0), c1, 3, 3), (r1, max(c1 - 1, 0), 3, 3), (3, 3, r1, c1)):
            evs.append({"op": "c14.merge", "table": 0, "r": a_, "c": b_, "r2": c_, "c2": d_})
        evs += [{"op": "c14.split", "table": 0, "r": r0, "c": c0}, {"op": "checkpoint", "sink": "seekable"}, {"op": "restart"}]
        out.append({"property": ID, "seed": "merge-flags-spelled-as-words-%d%d%d%d" % (r0, c0, r1, c1), "tier": "pinned", "config": {"pinned": True}, "start": [{"deck": "default"}], "events": evs})
    evs = [{"op": "add_slide", "layout": 6}, {"op": "c14.add_table", "slide": 0, "rows": 4, "cols": 4, "w": 900000, "h": 600000, "x": 0, "y": 0},
           {"op": "c14.merge", "table": 0, "r": 0, "c": 0, "r2": 1, "c2": 1, "held": True}, {"op": "c14.split", "table": 0, "r": 0, "c": 0, "held": True},
           {"op": "c14.merge", "table": 0, "r": 0, "c": 0, "r2": 0, "c2": 3, "held": True}, {"op": "c14.merge", "table": 0, "r": 1, "c": 0, "r2": 1, "c2": 1},
           {"op": "c14.split", "table": 0, "r": 0, "c": 0, "held": True}, {"op": "c14.merge", "table": 0, "r": 0, "c": 0, "r2": 0, "c2": 1, "held": True},
           {"op": "c14.split", "table": 0, "r": 0, "c": 0, "held": True}, {"op": "checkpoint", "sink": "seekable"}, {"op": "restart"}]
    out.append({"property": ID, "seed": "same-cell-handle-split-merge-split", "tier": "pinned", "config": {"pinned": True}, "start": [{"deck": "default"}], "events": evs})
    evs = [{"op": "add_slide", "layout": 6}, {"op": "c14.add_table", "slide": 0, "rows": 2, "cols": 3, "w": 900000, "h": 600000, "x": 0, "y": 0},
           {"op": "c14.frame_geom", "table": 0, "what": "width", "v": 5000000}, {"op": "c14.resize", "table": 0, "what": "col", "r": 0, "c": 1, "v": 400000},
           {"op": "c14.frame_geom", "table": 0, "what": "height", "v": 1}, {"op": "c14.resize", "table": 0, "what": "row", "r": 1, "c": 0, "v": 123456},
           {"op": "c14.frame_geom", "table": 0, "what": "width", "v": 1}, {"op": "reopen", "sink": "seekable", "form": "stream"},
           {"op": "c14.resize", "table": 0, "what": "col", "r": 0, "c": 0, "v": 7}, {"op": "checkpoint", "sink": "seekable"}, {"op": "restart"}]
    out.append({"property": ID, "seed": "frame-resized-then-column-changed", "tier": "pinned", "config": {"pinned": True}, "start": [{"deck": "default"}], "events": evs})
    # tables of the same shape whose sizes differ only in the division remainder, on one slide, on two slides, before and after a restart
    evs = [{"op": "add_slide", "layout": 6}, {"op": "add_slide", "layout": 6}]
    for k, (R_, C_, W_, H_) in enumerate(((2, 3, 4000000, 1000000), (2, 3, 4000001, 1000001), (2, 3, 4000002, 1000000), (3, 2, 1000001, 4000000), (3, 2, 1000000, 4000001))):
        evs.append({"op": "c14.add_table", "slide": k % 2, "rows": R_, "cols": C_, "w": W_, "h": H_, "x": 0, "y": 0})
        if k == 2:
            evs += [{"op": "checkpoint", "sink": "seekable"}, {"op": "restart"}]
    evs += [{"op": "checkpoint", "sink": "seekable"}, {"op": "restart"}]
    out.append({"property": ID, "seed": "same-shape-sizes-differing-in-remainder", "tier": "pinned", "config": {"pinned": True, "max_slides": 4}, "start": [{"deck": "default"}], "events": evs})
    evs = [{"op": "add_slide", "layout": 6}, {"op": "c14.add_table", "slide": 0, "rows": 3, "cols": 3, "w": 900000, "h": 600000, "x": 0, "y": 0},
           {"op": "c14.cell_text", "table": 0, "r": 0, "c": 0, "text": "before"}]
    evs += [{"op": "checkpoint", "sink": "seekable"}] + [{"op": "checkpoint", "sink": "seekable", "fault": {"kind": k_, "at": 50, "at_frac": f_, "sticky": False}} for k_, f_ in (("enospc", 0.97), ("eio", 0.995), ("enospc", 0.6))]
    evs += [{"op": "c14.merge", "table": 0, "r": 0, "c": 0, "r2": 1, "c2": 1}, {"op": "c14.cell_text", "table": 0, "r": 2, "c": 2, "text": "after"},
            {"op": "c14.resize", "table": 0, "r": 0, "c": 0, "what": "col", "v": 123456}, {"op": "checkpoint", "sink": "seekable"}, {"op": "restart"}]
    out.append({"property": ID, "seed": "late-failed-save-then-edit", "tier": "pinned", "config": {"pinned": True}, "start": [{"deck": "default"}], "events": evs})
    # one Table object kept across edits that take the column sum away from the frame width and back again
    evs = [{"op": "add_slide", "layout": 6}, {"op": "c14.add_table", "slide": 0, "rows": 2, "cols": 3, "w": 900000, "h": 600000, "x": 0, "y": 0}]
    for c_, v_ in ((0, 600000), (1, 0), (0, 300000), (1, 300000), (2, 1), (2, 300000)):
        evs.append({"op": "c14.resize", "table": 0, "r": 0, "c": c_, "what": "col", "v": v_, "held": True})
    for r_, v_ in ((0, 900000), (1, 0), (0, 300000), (1, 300000)):
        evs.append({"op": "c14.resize", "table": 0, "r": r_, "c": 0, "what": "row", "v": v_, "held": True})
    evs += [{"op": "checkpoint", "sink": "seekable"}, {"op": "restart"}]
    out.append({"property": ID, "seed": "kept-table-object-sum-returns-to-the-frame-size", "tier": "pinned", "config": {"pinned": True}, "start": [{"deck": "default"}], "events": evs})
    # tables created through a table placeholder, rows != cols
    evs = []
    for k, (R_, C_) in enumerate(((2, 3), (3, 1), (1, 4), (5, 2))):
        evs += [{"op": "add_slide", "layout": 4}, {"op": "c14.add_table", "slide": 10 ** 6, "rows": R_, "cols": C_, "w": 900000, "h": 600000, "x": 0, "y": 0, "via": "placeholder"}]
    evs += [{"op": "c14.merge", "table": 0, "r": 0, "c": 0, "r2": 1, "c2": 1}, {"op": "checkpoint", "sink": "seekable"}, {"op": "restart"}]
    out.append({"property": ID, "seed": "tables-through-placeholders", "tier": "pinned", "config": {"pinned": True, "max_slides": 12},
                "start": [{"deck": "f-ph-unpopulated-placeholders.pptx"}], "events": evs})
    return out
