"""C06 - shape ids, slide ids, relationship ids and part names are unique and stable."""
from __future__ import annotations

import collections
import hashlib

from .. import ops as O
from .. import refpkg, snapshot
from ..engine import Oracle, jdump
from ..rng import Streams
from . import common

ID = "C06"
LEVEL = "exploration"
RULE = ("seeded addition histories (slides, every shape kind incl. inside nested groups, pictures, charts, tables, "
        "movies, OLE objects, notes, hyperlinks) over start decks whose stored XML was rewritten by a seeded id mutator "
        "(gaps, ids near 2^31/2^32, duplicates, non-numeric @id, slide ids at 2147483647, renamed slide parts), with held "
        "collection handles, turbo-add as a buggify knob (single handle), checkpoints and restarts; invariants after "
        "every event; non-trivial = >=4 effective additions; distinct = distinct event-log digest")
ASSUMPTIONS = [
    "shape ids are read from the part's serialised XML (all p:cNvPr/@id) by the harness, not through python-pptx",
    "only NEWLY assigned ids are checked for freshness; duplicates already in the mutated start deck are not blamed",
    "relationship-id reuse after a drop is legal ('while in use' = while an r:* attribute in the part's XML names it)",
    "turbo-add is only enabled on a single held SlideShapes handle (its documented precondition)",
    "remembered ids are only those unique at the time they were remembered; histories contain additions only, so a "
    "remembered object's content digest (kind, name, text, image hash) must not change",
]
CLAUSES = {
    "shape-id": "Every newly assigned shape id is a positive integer different from every id already used in its "
                "slide-like part",
    "slide-id": "slide ids are unique, lie in 256..2147483647 and never change for existing slides",
    "rid": "relationship ids are unique per source and are not reassigned while in use",
    "partname": "part names are unique in the package, and once the slide collection has been accessed slide parts "
                "are named slide1..n in presentation order",
    "lookup": "An object looked up earlier by id still designates the same content after later additions",
}
PML = "{http://schemas.openxmlformats.org/presentationml/2006/main}"


SHAPE_TAGS = {PML + t for t in ("sp", "pic", "graphicFrame", "grpSp", "cxnSp", "contentPart")}
TREE_TAGS = {PML + "spTree", PML + "grpSp"}


def _ids_of_part(part):
    """Counter of shape ids in a slide-like part, from its serialised bytes: @id of the p:cNvPr of the
    shape tree itself and of every shape element that is a child of p:spTree / p:grpSp.  (A p:cNvPr
    nested elsewhere, e.g. the id="0" picture inside p:oleObj, is not a shape of the tree.)"""
    root = refpkg.parse(part.blob)
    c = collections.Counter()
    for el in root.iter(PML + "cNvPr"):
        nv = el.getparent()
        shp = nv.getparent() if nv is not None else None
        if shp is None:
            continue
        par = shp.getparent()
        if shp.tag == PML + "spTree" or (shp.tag in SHAPE_TAGS and par is not None and par.tag in TREE_TAGS):
            c[el.get("id")] += 1
    return c


def _all_ids_of_part(part):
    """Every unqualified @id in the part, on whatever element ("every id already used in its slide-like part")."""
    root = refpkg.parse(part.blob)
    c = collections.Counter()
    for el in root.iter():
        if isinstance(el.tag, str) and el.get("id") is not None:
            c[el.get("id")] += 1
    return c


def _digest_shape(sh):
    d = {"cls": type(sh).__name__, "name": sh.name}
    if sh.has_text_frame:
        d["text"] = sh.text_frame.text
    if type(sh).__name__ in ("Picture",):
        try:
            d["img"] = sh.image.sha1
        except Exception:  # noqa: BLE001
            d["img"] = "?"
    if getattr(sh, "has_chart", False):
        d["chart"] = snapshot._try(lambda: [list(p.categories) and [str(c) for c in p.categories] for p in sh.chart.plots])
    if getattr(sh, "has_table", False):
        d["table"] = [[c.text for c in r.cells] for r in sh.table.rows]
    return hashlib.sha1(jdump(d).encode()).hexdigest()[:16]


class IdOracle(Oracle):
    name = "c06"

    def __init__(self):
        self.st = {}  # deck idx -> state
        self.tainted = set()
        self.bound = {}  # id(part) -> {rId: (reltype, target)} for rIds the part's XML refers to

    # -- state capture --
    def _capture(self, w, deck):
        prs = deck.prs
        st = {"parts": {}, "slide_ids": None, "rels": {}}
        pkg = prs.part.package
        names = collections.Counter()
        for part in pkg.iter_parts():
            names[str(part.partname)] += 1
            el = getattr(part, "_element", None)
            if el is not None and el.tag in (PML + "sld", PML + "notes"):
                st["parts"][id(part)] = (part, _ids_of_part(part), _all_ids_of_part(part))
            if el is not None:
                refs = {v for _a, v in refpkg.xml_rid_refs(part.blob) if v}
                rels = {}
                for rid, rel in part.rels.items():
                    rels[rid] = (rel.reltype, rel.target_ref if rel.is_external else id(rel.target_part))
                st["rels"][id(part)] = (part, rels, refs)
        st["names"] = names
        if deck.slides_accessed:
            st["slide_ids"] = [s.slide_id for s in prs.slides]
            st["slide_names"] = [str(s.part.partname) for s in prs.slides]
        return st

    def on_open(self, w, deck):
        self.st[deck.idx] = self._capture(w, deck)
        self.bound = {}

    def after_event(self, w, ev, outcome):
        for deck in w.decks:
            if not deck.alive or deck.prs is None:
                continue
            old = self.st.get(deck.idx)
            new = self._capture(w, deck)
            if old is not None:
                self._compare(w, deck, old, new, ev)
            self.st[deck.idx] = new
        if ev["op"] == "c06.remember" or ev["op"] == "c06.lookup":
            return

    def _compare(self, w, deck, old, new, ev):
        # 1. new shape ids fresh, positive ints
        for pid, (part, ids, _all) in new["parts"].items():
            before = old["parts"].get(pid, (None, collections.Counter(), collections.Counter()))[1]
            before_all = old["parts"].get(pid, (None, collections.Counter(), collections.Counter()))[2]
            added = ids - before
            if added and w.scratch.get("turbo_resynced_at") == w.cur_event_index and ev["op"] not in ("add_group", "add_freeform"):
                self.tainted.discard(pid)       # the cache was re-read from the part just before this addition
            for v, n in added.items():
                w.stats.hit("c06_new_shape_ids", n)
                if before_all[v] - before[v] > 0:
                    # the id was already carried by an element that is not a shape of the tree (timing node, extension, nested drawing)
                    w.report("shape-id|collision|with-id-on-another-element", "part=%s new shape id=%r; elements carrying it before: %d" % (
                        part.partname, v, before_all[v]), CLAUSES["shape-id"])
                if before_all[v] - before[v] == 0 and sum(before_all.values()) > sum(before.values()):
                    w.stats.hit("c06_new_shape_id_on_part_with_foreign_ids")
                ok_int = v is not None and v.isascii() and v.isdigit() and int(v) > 0
                if not ok_int:
                    w.report("shape-id|not-positive-int", "part=%s id=%r" % (part.partname, v), CLAUSES["shape-id"])
                if (ev.get("turbo") or w.cfg.get("turbo")) and ev["op"] in ("add_group", "add_freeform", "group_existing"):
                    # these two allocate through the XML element's own allocator, which does not advance the
                    # turbo cache of the collection (known finding F-14): remember which part is affected
                    self.tainted.add(pid)
                if ids[v] > 1:
                    if pid in self.tainted and (ev.get("turbo") or w.cfg.get("turbo")):
                        _memo(deck)["turbo_collision"] = True
                        w.report("shape-id|collision|turbo-cache-stale-after-add_group_shape-or-build_freeform",
                                 "part=%s id=%r used %d times" % (part.partname, v, ids[v]), CLAUSES["shape-id"])
                        continue
                    w.report("shape-id|collision|%s" % ("with-existing" if before[v] else "among-new"),
                             "part=%s id=%r used %d times (before: %d)" % (part.partname, v, ids[v], before[v]), CLAUSES["shape-id"])
        # 2. slide ids
        if new["slide_ids"] is not None:
            ids = new["slide_ids"]
            oldids = old["slide_ids"] if old["slide_ids"] is not None else None
            if oldids is not None:
                if ids[: len(oldids)] != oldids:
                    w.report("slide-id|existing-changed", "before=%r after=%r" % (oldids, ids), CLAUSES["slide-id"])
                fresh = ids[len(oldids):]
                for v in fresh:
                    w.stats.hit("c06_new_slide_ids")
                    if not (256 <= v <= 2147483647):
                        w.report("slide-id|out-of-range", "new id %r" % v, CLAUSES["slide-id"])
                    if ids.count(v) > 1:
                        w.report("slide-id|duplicate", "new id %r in %r" % (v, ids), CLAUSES["slide-id"])
                    if v >= 2147483000:
                        w.probes.hit("slide_id_near_upper_bound")
                if fresh and max(oldids or [0]) >= 2147483647:
                    w.probes.hit("slide_id_fallback_branch")
            # 4b. slide part names slide1..n in presentation order once .slides accessed
            want = ["/ppt/slides/slide%d.xml" % (i + 1) for i in range(len(ids))]
            if new["slide_names"] != want:
                w.report("partname|slides-not-1..n-in-order", "names=%r" % (new["slide_names"],), CLAUSES["partname"])
        # 3. relationship ids not re-pointed while an XML reference exists
        for pid, (part, rels, refs) in new["rels"].items():
            o = old["rels"].get(pid)
            if o is None:
                continue
            _p, orels, orefs = o
            for rid in refs & orefs:
                if rid in rels and rid in orels and rels[rid] != orels[rid]:
                    # an action-changing op may legally drop a relationship (reference count < 2) and create a
                    # new one that takes the freed id; then exactly one element references it afterwards
                    nref = sum(1 for _a, v in refpkg.xml_rid_refs(part.blob) if v == rid)
                    if ev["op"] in ("click_hyperlink", "click_target", "run_hyperlink") and nref < 2:
                        w.stats.hit("c06_rid_legally_reused_after_drop")
                        continue
                    w.report("rid|reassigned-while-in-use", "part=%s %s: %r -> %r" % (part.partname, rid, orels[rid], rels[rid]), CLAUSES["rid"])
        # 3b. the same over more than one event: an id that stays referenced by the part's XML keeps meaning the relationship it meant
        # when the reference was made - also when the relationship vanished for a while (dropped although still referenced) and a
        # later, unrelated addition takes the freed id
        for pid, (part, rels, refs) in new["rels"].items():
            b = self.bound.setdefault(pid, {})
            for rid in [r_ for r_ in b if r_ not in refs]:
                del b[rid]
            for rid in refs:
                if rid not in rels:
                    continue        # referenced but absent: C02's question; what it meant is remembered
                if rid in b and b[rid] != rels[rid] and rid not in (old["rels"].get(pid, (None, {}, set()))[1]):
                    w.report("rid|reassigned-while-in-use", "part=%s %s was dropped while the XML still referred to it and now means %r (meant %r)" % (
                        part.partname, rid, rels[rid], b[rid]), CLAUSES["rid"])
                b[rid] = rels[rid]
            w.stats.hit("c06_rid_checks", len(refs & orefs))
        # 4a. part names unique
        dup = [n for n, c in new["names"].items() if c > 1]
        if dup:
            w.report("partname|duplicate|%s" % refpkg.ext_of(dup[0]), str(dup[:4]), CLAUSES["partname"])

    def on_checkpoint(self, w, deck, image, ev):
        pkg = refpkg.RefPackage.from_bytes(image)
        if pkg.dup_members:
            w.report("partname|duplicate-zip-member", str(pkg.dup_members[:4]), CLAUSES["partname"])
        for n in pkg.members:
            if refpkg._is_rels_item(n):
                rels = pkg.rels_of(refpkg._source_of_rels_item(n)) or []
                ids = [x.rid for x in rels]
                if len(ids) != len(set(ids)):
                    w.report("rid|duplicate-in-rels-item", n, CLAUSES["rid"])

    def on_restart(self, w, deck, ev):
        # re-check remembered lookups against the re-opened deck
        _verify_lookups(w, deck, "after-restart")
        self.st[deck.idx] = self._capture(w, deck)


# ---- remembered lookups ----------------------------------------------------------------------------------------

def _memo(deck):
    return deck.memo.setdefault("c06", {"slides": {}, "shapes": {}})


@O.op("c06.remember", "c06", weight=2.0)
@O.gen(lambda r: O.g_sl(r))
def _remember(w, deck, a):
    sl = O.nav_slide(w, deck, a)
    m = _memo(deck)
    ids = collections.Counter(s.shape_id for s in O.walk_shapes(sl.shapes))
    dig = {}
    for s in O.walk_shapes(sl.shapes):
        if ids[s.shape_id] == 1:
            dig[str(s.shape_id)] = _digest_shape(s)
    sids = [s.slide_id for s in deck.prs.slides]
    if sids.count(sl.slide_id) == 1:
        m["slides"][str(sl.slide_id)] = {"shapes": dig, "n": len(list(sl.shapes))}
    w.stats.hit("c06_remembered", len(dig))


def _verify_lookups(w, deck, when):
    m = _memo(deck)
    prs = deck.prs
    for sid, ent in sorted(m["slides"].items()):
        sl = prs.slides.get(int(sid))
        if sl is None:
            w.report("lookup|slide-id-gone|%s" % when, "slide id %s" % sid, CLAUSES["lookup"])
            continue
        by = {}
        cnt = collections.Counter()
        for s in O.walk_shapes(sl.shapes):
            cnt[s.shape_id] += 1
            by.setdefault(s.shape_id, s)
        for shid, dg in sorted(ent["shapes"].items()):
            s = by.get(int(shid))
            if s is None:
                w.report("lookup|shape-id-gone|%s" % when, "slide %s shape %s" % (sid, shid), CLAUSES["lookup"])
                continue
            if cnt[int(shid)] > 1:
                if m.get("turbo_collision"):
                    # consequence of known finding F-14 (the duplicate id was issued by the stale turbo cache)
                    w.report("shape-id|collision|turbo-cache-stale-after-add_group_shape-or-build_freeform",
                             "lookup of slide %s shape %s is ambiguous" % (sid, shid), CLAUSES["shape-id"])
                    continue
                w.report("lookup|shape-id-now-ambiguous|%s" % when, "slide %s shape %s x%d" % (sid, shid, cnt[int(shid)]), CLAUSES["lookup"])
                continue
            if _digest_shape(s) != dg:
                w.report("lookup|content-changed|%s|%s" % (when, type(s).__name__), "slide %s shape %s" % (sid, shid), CLAUSES["lookup"])
            w.stats.hit("c06_lookup_checks")


@O.op("c06.lookup", "c06", weight=2.0)
def _lookup(w, deck, a):
    deck.slides_accessed = True
    _verify_lookups(w, deck, "later")


ADD_OPS = {"add_slide", "add_shape", "add_textbox", "add_picture", "add_connector", "add_group", "add_freeform", "group_existing",
           "add_table", "add_chart", "add_movie", "add_ole", "notes_access", "notes_text", "click_hyperlink",
           "click_target", "run_hyperlink", "ph_insert_picture", "ph_insert_chart", "ph_insert_table", "core_props",
           "c06.remember", "c06.lookup"}
# ph_insert_* replace the placeholder element (same id is re-used for the new graphic frame / picture): they change
# the designated content by design, so they are excluded from runs that remember lookups (see gen_trace)


def plan(tier):
    if tier == "quick":
        return {"runs": 1500, "budget_s": 75, "chunk": 10}
    return {"runs": 40000, "budget_s": 780, "chunk": 16}


ID_DECKS = ["default.pptx", "f-shp-shapes.pptx", "f-shp-groupshape.pptx", "t-test_slides.pptx", "f-sld-slides.pptx",
            "f-shp-common-props.pptx", "f-ph-unpopulated-placeholders.pptx", "f-shp-picture.pptx", "f-prs-add-slide.pptx",
            "f-shp-connector-props.pptx", "f-cht-charts.pptx", "f-sld-notes.pptx", "f-shp-movie-props.pptx", "f-cht-series.pptx"]


def gen_trace(seed: int, tier: str) -> dict:
    S = Streams(seed)
    r = S("config")
    n = r.randint(10, 35) if tier == "quick" else r.randint(20, 90)
    rs = S("start")
    start = {"deck": rs.choice(ID_DECKS), "form": rs.choice(["stream", "path", "dir"])}
    xf = []
    if rs.random() < 0.7:
        xf.append({"kind": "ids", "mode": rs.choice(["gaps", "high", "dups", "nonnumeric", "names", "mixed", "slideids-max",
                                                     "slideids-gaps", "slideids-max", "foreign", "foreign", "padded"]), "seed": rs.randint(0, 999)})
    if rs.random() < 0.3:
        xf.append({"kind": "rename_slides", "mode": rs.choice(["reverse", "rotate", "gaps", "shuffle", "lastfits", "firstbig", "midnext", "midnext2"]), "seed": rs.randint(0, 99)})
    if rs.random() < 0.3:
        for fam in rs.sample(["charts", "themes", "notes", "media", "embeddings"], rs.choice([1, 2])):
            xf.append({"kind": "renumber", "family": fam, "mode": rs.choice(["odd", "shift", "sparse", "reverse"]), "seed": rs.randint(0, 99)})
    if rs.random() < 0.12:
        xf.insert(0, {"kind": "unlist_slide", "k": rs.randint(0, 5)})
    if rs.random() < 0.25:
        xf.append({"kind": "respell_rids", "style": rs.choice(["mixed", "hex", "padded", "sparse", "words"]), "seed": rs.randint(0, 99)})
    if xf:
        start["xform"] = xf
    turbo = r.random() < 0.25
    exclude = {"ph_insert_picture", "ph_insert_chart", "ph_insert_table"}
    events, sw = common.gen_history(
        seed, fault_rate=common.fault_arm(seed), n_events=n, families=["c06", "slides", "shapes", "media", "charts", "tables", "actions", "package"],
        always=("c06", "shapes", "slides"), ckpt=0.06, reopen=0.05, restart=0.03, observe=0.03, jump=0.0, fork=0.03,
        op_filter=lambda name: name in ADD_OPS and name not in exclude)
    common.rewritten_between_sessions(seed, events, hows=("hover_links", "bool_words"), rate=0.3)
    if turbo:
        # single held SlideShapes handle per slide for the whole run (turbo's precondition): all shape additions go
        # through actor 0's held handle and never into groups (GroupShapes is a different collection)
        rt = S("turbo-resync")
        for e in events:
            if e["op"].startswith("add_") and e["op"] != "add_slide":
                e["held"], e["actor"], e["turbo"] = True, 0, True
                if rt.random() < 0.2:
                    e["turbo_resync"] = True
                e.pop("group", None)
                if e["op"] == "add_group":
                    e["n"] = 0  # children are added through a second collection (GroupShapes)
            elif "held" in e:
                e["held"] = False
        # restarts drop handles; that is fine (a new single handle is created afterwards)
    return {"property": ID, "seed": seed, "tier": tier,
            "config": {"families": sw["families"], "turbo": turbo, "max_slides": 10, "max_shapes": 60},
            "start": [start], "events": events}


def make_oracles(trace):
    return [IdOracle()]


def nontrivial(trace, res):
    return res["stats"].get("c06_new_shape_ids", 0) + res["stats"].get("c06_new_slide_ids", 0) >= 4


def pinned_traces(tier):
    out = []
    box = {"x": 10, "y": 10, "cx": 1000, "cy": 1000}
    # both shape-id allocators: group add (first-gap) interleaved with slide add (max+1) over mutated ids
    for mode in ("gaps", "high", "dups", "nonnumeric"):
        for sd in (1, 2, 3):
            evs = [{"op": "add_group", "slide": 0, "n": 2, "boxes": [box, box, box], **box},
                   {"op": "add_shape", "slide": 0, "type": 1, **box},
                   {"op": "add_shape", "slide": 0, "type": 1, "group": 0, **box},
                   {"op": "add_textbox", "slide": 0, "text": "t", **box},
                   {"op": "add_group", "slide": 0, "n": 1, "boxes": [box, box, box], "group": 0, **box},
                   {"op": "add_shape", "slide": 0, "type": 5, "group": 1, **box},
                   {"op": "add_connector", "slide": 0, "type": "STRAIGHT", "ex": 5, "ey": 5, **box},
                   {"op": "c06.remember", "slide": 0},
                   {"op": "add_table", "slide": 0, "rows": 2, "cols": 2, **box},
                   {"op": "add_shape", "slide": 0, "type": 9, "group": 0, **box},
                   {"op": "c06.lookup"},
                   {"op": "reopen", "sink": "seekable", "form": "stream"},
                   {"op": "add_shape", "slide": 0, "type": 9, **box},
                   {"op": "c06.lookup"}]
            out.append({"property": ID, "seed": "allocators-%s-%d" % (mode, sd), "tier": "pinned", "config": {"pinned": True},
                        "start": [{"deck": "f-shp-shapes.pptx", "xform": [{"kind": "ids", "mode": mode, "seed": sd}]}], "events": evs})
    # slide-id fallback: max slide id at the upper bound, add two slides
    for deck in ("t-test_slides.pptx", "f-sld-slides.pptx", "f-prs-add-slide.pptx"):
        out.append({"property": ID, "seed": "slide-id-upper-bound-%s" % deck, "tier": "pinned", "config": {"pinned": True},
                    "start": [{"deck": deck, "xform": [{"kind": "ids", "mode": "slideids-max", "seed": 1}]}],
                    "events": [{"op": "observe"}, {"op": "add_slide", "layout": 0}, {"op": "add_slide", "layout": 1},
                               {"op": "reopen", "sink": "seekable", "form": "stream"}, {"op": "add_slide", "layout": 1},
                               {"op": "checkpoint", "sink": "seekable"}]})
    # rId gap reuse: add 3 hyperlinks, clear the 2nd, add a picture, save
    img = {"fmt": "PNG", "w": 2, "h": 2, "seed": 1, "mode": "RGB", "dpi": None}
    evs = [{"op": "add_slide", "layout": 6}]
    for i in range(3):
        evs.append({"op": "add_shape", "slide": 0, "type": 1, **box})
    for i in range(3):
        evs.append({"op": "click_hyperlink", "slide": 0, "shape": i, "addr": "http://e.x/%d" % i})
    evs += [{"op": "click_hyperlink", "slide": 0, "shape": 1, "addr": None},
            {"op": "add_picture", "slide": 0, "img": img, "src": {"via": "stream", "pos": 0}, "size": "none", **box},
            {"op": "checkpoint", "sink": "seekable"}, {"op": "restart"}]
    out.append({"property": ID, "seed": "rid-gap-reuse", "tier": "pinned", "config": {"pinned": True},
                "start": [{"deck": "default"}], "events": evs})
    # more than ten distinct movies and more than ten distinct images (part numbers past 9: "10" sorts before "2" as text)
    evs = [{"op": "add_slide", "layout": 6}, {"op": "add_slide", "layout": 6}]
    for k in range(13):
        evs.append({"op": "add_movie", "slide": k % 2, "movie": {"seed": 200 + k, "len": 64}, "src": {"via": "stream", "pos": 0}, "poster": dict(img, seed=300 + k), "psrc": {"via": "stream", "pos": 0},
                    "mime": "video/mp4", **box})
    for k in range(4):
        evs.append({"op": "add_picture", "slide": 0, "img": dict(img, seed=400 + k), "src": {"via": "stream", "pos": 0}, "size": "none", **box})
    evs += [{"op": "checkpoint", "sink": "seekable"}, {"op": "restart"},
            {"op": "add_movie", "slide": 0, "movie": {"seed": 777, "len": 64}, "src": {"via": "stream", "pos": 0}, "poster": dict(img, seed=778), "psrc": {"via": "stream", "pos": 0}, "mime": "video/mp4", **box},
            {"op": "checkpoint", "sink": "seekable"}]
    out.append({"property": ID, "seed": "more-than-ten-media-parts", "tier": "pinned", "config": {"pinned": True, "max_shapes": 80}, "start": [{"deck": "default"}], "events": evs})
    # ids written with leading zeros (legal unsignedInt lexical forms), then additions through BOTH allocators; groups made of existing shapes
    for mode in ("padded", "gaps", "foreign"):
        evs = [{"op": "add_shape", "slide": 0, "type": 1, **box}, {"op": "add_group", "slide": 0, "n": 1, "boxes": [box, box, box], **box},
               {"op": "add_freeform", "slide": 0, "sx": 0, "sy": 0, "scale": 1.0, "contours": [[[10, 10], [20, 30]]], "close": True, "ox": 5, "oy": 5, **box},
               {"op": "group_existing", "slide": 0, "members": [0, 1]}, {"op": "c06.remember", "slide": 0}, {"op": "group_existing", "slide": 0, "members": [2, 3, 1]},
               {"op": "add_group", "slide": 0, "n": 2, "boxes": [box, box, box], "group": 0, **box}, {"op": "add_textbox", "slide": 0, "text": "t", **box},
               {"op": "group_existing", "slide": 0, "members": [0]}, {"op": "c06.lookup"}, {"op": "checkpoint", "sink": "seekable"}, {"op": "restart"}, {"op": "c06.lookup"}]
        out.append({"property": ID, "seed": "both-allocators-%s" % mode, "tier": "pinned", "config": {"pinned": True},
                    "start": [{"deck": "f-shp-shapes.pptx", "xform": [{"kind": "ids", "mode": mode, "seed": 2}]}], "events": evs})
    # a relationship shared by several users (same URL on runs / on shapes, same jump target): one user changed, one cleared, then NEW
    # relationships are made on that slide - none of them may take the id the remaining users still refer to
    U = "http://example.com/shared"
    for kind in ("run", "click", "jump"):
        evs = [{"op": "add_slide", "layout": 6}, {"op": "add_slide", "layout": 6}, {"op": "add_slide", "layout": 6},
               dict(box, op="add_textbox", slide=0, text="one\ntwo\nthree"), dict(box, op="add_shape", slide=0, type=1), dict(box, op="add_shape", slide=0, type=1),
               dict(box, op="add_shape", slide=0, type=1)]
        if kind == "run":
            setl = lambda i, v: {"op": "run_hyperlink", "slide": 0, "shape": 0, "para": i, "run": 0, "addr": v}  # noqa: E731
        elif kind == "click":
            setl = lambda i, v: {"op": "click_hyperlink", "slide": 0, "shape": 1 + i, "addr": v}  # noqa: E731
        else:
            setl = lambda i, v: {"op": "click_target", "slide": 0, "shape": 1 + i, "target": (None if v is None else (1 if v == U else 2))}  # noqa: E731
        evs += [setl(0, U), setl(1, U), setl(2, U), {"op": "c06.remember", "slide": 0},
                setl(1, U + "/other"), {"op": "add_picture", "slide": 0, "img": img, "src": {"via": "stream", "pos": 0}, "size": "none", **box},
                setl(0, None),
                {"op": "add_picture", "slide": 0, "img": dict(img, seed=2), "src": {"via": "stream", "pos": 0}, "size": "none", **box},
                {"op": "click_hyperlink", "slide": 0, "shape": 0, "addr": "http://example.com/new"},
                {"op": "c06.lookup"}, {"op": "checkpoint", "sink": "seekable"}, {"op": "restart"}, {"op": "c06.lookup"}]
        out.append({"property": ID, "seed": "shared-relationship-%s" % kind, "tier": "pinned", "config": {"pinned": True},
                    "start": [{"deck": "default"}], "events": evs})
    return out
