"""C01 - opening and saving a package preserves every reachable part and relationship.

Storage round-trip with restart fix-point, run on the storage simulator with faults OFF (control
arm of C16): generated OPC packages + every corpus deck, three storage forms, three sink kinds, clock
jumps between saves."""
from __future__ import annotations

import hashlib
import os
import random
import shutil

from .. import pkgxform, refpkg, seams
from ..disk import FaultCounters, SimDisk, SimSink, SimSource, scratch_dir
from ..engine import Violation, jdump, sha
from ..rng import Streams
from . import common

ID = "C01"
LEVEL = "exploration"
RULE = ("seeded generator of well-formed OPC packages (0-14 parts, depth 0-4, cycles, self-loops, shared and parallel "
        "relationships, external targets, './' '../' and root-absolute target spellings, non-rIdN ids, Default/Override "
        "mixes with shared extensions and case differences, binary and XML payloads, shuffled/stored members) plus "
        "every corpus deck; history open(form) -> save(sink) -> open -> save -> open with clock jumps; oracle = "
        "independent OPC reader comparing input and output; non-trivial = package with >=3 reachable parts and >=1 of "
        "{cycle, shared target, external rel, non-plain target spelling, shared extension}; distinct = distinct log digest")
ASSUMPTIONS = [
    "part names are restricted to [A-Za-z0-9._-] segments (no characters that need percent-encoding)",
    "XML-equivalence = equal C14N after dropping whitespace-only text nodes",
    "zip member order, compression method, timestamps, Default-vs-Override choice and attribute layout are not asserted",
    "generated packages have unique relationship ids per source and no dangling internal targets",
]
CLAUSES = {
    "parts": "yields a package that contains exactly the parts reachable by relationships from the package root, each "
             "under the same part name",
    "ctype": "with the same content type",
    "payload": "and the same payload (byte-identical for non-XML parts, XML-equivalent for XML parts)",
    "rels": "and exactly the same relationships for the package and for every part (same id, type and target mode, "
            "resolving to the same part or carrying the same external target string)",
    "fixpoint": "Opening and saving that output again reproduces the same set of members with identical bytes",
    "open": "opening it (a well-formed package whose internal relationships all resolve) succeeds",
}

CT_POOL_BIN = [
    "application/octet-stream", "application/x-foo", "image/png", "image/jpeg", "image/gif", "video/mp4",
    "application/vnd.openxmlformats-officedocument.presentationml.printerSettings",
    "application/vnd.openxmlformats-officedocument.spreadsheetml.printerSettings",
    "application/vnd.openxmlformats-officedocument.wordprocessingml.printerSettings",
    "application/vnd.openxmlformats-officedocument.spreadsheetml.sheet", "application/x-fontdata",
    "application/vnd.openxmlformats-officedocument.oleObject", "application/xml",
    "application/vnd.openxmlformats-officedocument.theme+xml", "Application/X-Upper",
]
CT_POOL_XML = [  # types python-pptx maps to XmlPart subclasses: payload is re-serialised
    "application/vnd.openxmlformats-officedocument.presentationml.slide+xml",
    "application/vnd.openxmlformats-officedocument.presentationml.slideLayout+xml",
    "application/vnd.openxmlformats-officedocument.presentationml.slideMaster+xml",
    "application/vnd.openxmlformats-officedocument.presentationml.notesSlide+xml",
    "application/vnd.openxmlformats-officedocument.drawingml.chart+xml",
    "application/vnd.openxmlformats-package.core-properties+xml",
    "application/vnd.openxmlformats-officedocument.presentationml.presentation.main+xml",
]
EXTS = ["xml", "bin", "png", "PNG", "jpeg", "jpg", "dat", "", "Xml", "BIN", "rels2", "a.b"]
SEGS = ["a", "b", "ppt", "slides", "media", "x1", "X1", "deep", "d-e", "f_g", "n0", "docProps", "aX", "a.b",
        "my%20dir", "%C3%A9t%C3%A9"]   # percent-escapes are part of the name: the ZIP item is called exactly that
RELTYPES = ["http://schemas.openxmlformats.org/officeDocument/2006/relationships/image",
            "http://schemas.openxmlformats.org/officeDocument/2006/relationships/slide",
            "http://schemas.openxmlformats.org/officeDocument/2006/relationships/officeDocument",
            "http://example.com/rel/custom", "http://schemas.openxmlformats.org/officeDocument/2006/relationships/hyperlink",
            "urn:x:y"]
EXTERNALS = ["http://example.com/", "http://example.com/a b?c=d&e=f#frag", "file:///C:/x/y.txt", "mailto:a@b.c",
             "http://ex\u00e4mple.com/\u00fcber", "../outside.xml", "#local", ""]


# ---- generator --------------------------------------------------------------------------------------

def gen_pkg(r: random.Random) -> dict:
    n = r.choice([0, 1, 2, 3, 4, 5, 6, 8, 10, 14])
    names: list[str] = []
    lower = set()
    tries = 0
    while len(names) < n and tries < 200:
        tries += 1
        depth = r.choice([0, 1, 1, 2, 2, 3, 4])
        segs = [r.choice(SEGS) for _ in range(depth)]
        base = r.choice(["part", "image", "slide", "x", "P", "n", "my%20picture", "na%C3%AFve", "100%25"]) + r.choice(["", "1", "2", "10", "007"])
        ext = r.choice(EXTS)
        name = "/" + "/".join(segs + [base + ("." + ext if ext else "")])
        lo = name.lower()
        if lo in lower or "_rels" in name or name.lower() == "/[content_types].xml":
            continue
        # no name may be a directory prefix of another (file/dir conflict in directory form)
        if any(o.lower().startswith(lo + "/") or lo.startswith(o.lower() + "/") for o in names):
            continue
        lower.add(lo)
        names.append(name)
    parts = []
    for nm in names:
        if r.random() < 0.3:
            ct = r.choice(CT_POOL_XML)
            payload = {"kind": "xml", "seed": r.randint(0, 999)}
        else:
            ct = r.choice(CT_POOL_BIN)
            payload = {"kind": "bytes", "seed": r.randint(0, 999), "len": r.choice([0, 1, 7, 100, 3000])}
        parts.append({"name": nm, "ctype": ct, "payload": payload, "rels": []})
    by = {p["name"]: p for p in parts}
    root_rels = []
    # reachability tree over a subset
    reach = [p["name"] for p in parts if r.random() < 0.85]
    r.shuffle(reach)
    placed: list[str] = []
    idc = {}
    explicit_rate = r.choice([0, 0, 0, 0.3, 1.0])

    def new_id(src):
        k = idc[src] = idc.get(src, 0) + 1
        style = r.random()
        if style < 0.7:
            return "rId%d" % k
        if style < 0.8:
            return "rId%d" % (k + r.choice([10, 100, 999999]))
        if style < 0.9:
            return "R%d_%s" % (k, r.choice(["a", "b", "Z"]))
        return "rId0%d" % k

    def add_rel(src, tgt_name):
        rels = root_rels if src == "/" else by[src]["rels"]
        rid = new_id(src)
        while any(x["id"] == rid for x in rels):
            rid = rid + "x"
        rel = {"id": rid, "type": r.choice(RELTYPES), "target": spell(r, src, tgt_name), "mode": "Internal"}
        if explicit_rate and r.random() < explicit_rate:
            rel["explicit"] = True      # TargetMode="Internal" spelled out (optional attribute, default value)
        rels.append(rel)

    for nm in reach:
        src = "/" if not placed or r.random() < 0.3 else r.choice(placed)
        add_rel(src, nm)
        placed.append(nm)
    # extra edges: cycles, self loops, shared targets, parallel rels
    for _ in range(r.choice([0, 0, 1, 2, 4])):
        if not placed:
            break
        src = r.choice(placed + ["/"])
        tgt = r.choice(placed)
        if r.random() < 0.2 and src != "/":
            tgt = src
        add_rel(src, tgt)
    # external rels
    for _ in range(r.choice([0, 0, 1, 2])):
        src = r.choice(placed + ["/"]) if placed else "/"
        rels = root_rels if src == "/" else by[src]["rels"]
        rid = new_id(src)
        while any(x["id"] == rid for x in rels):
            rid = rid + "x"
        ext_t = r.choice(EXTERNALS)
        if placed and r.random() < 0.3:
            # an EXTERNAL target whose text happens to spell a part of this very package (relative or absolute): it stays external
            pn = r.choice(placed)
            ext_t = r.choice([pn, pkgxform.relref(src, pn), pn.rpartition("/")[2]])
        rels.append({"id": rid, "type": r.choice(RELTYPES), "target": ext_t, "mode": "External"})
    # content types: defaults per extension group, overrides for the rest
    defaults = {}
    overrides = []
    groups: dict[str, list] = {}
    for p in parts:
        groups.setdefault(refpkg.ext_of(p["name"]).lower(), []).append(p)
    for ext, ps in sorted(groups.items()):
        use_default = ext != "" and r.random() < 0.7
        dtype = r.choice(ps)["ctype"] if use_default else None
        if use_default:
            defaults[r.choice([ext, ext.upper(), ext.capitalize()])] = dtype
        for p in ps:
            if not use_default or p["ctype"] != dtype or r.random() < 0.15:
                nm = p["name"]
                if r.random() < 0.2:
                    nm = nm.upper() if r.random() < 0.5 else nm.swapcase()
                overrides.append([nm, p["ctype"]])
    # unrelated declarations
    if r.random() < 0.3:
        defaults.setdefault("zzz", "application/x-unused")
    if r.random() < 0.2:
        overrides.append(["/not/there.bin", "application/x-ghost"])
    return {"parts": parts, "root_rels": root_rels, "defaults": sorted(defaults.items()), "overrides": overrides,
            "order_seed": r.randint(0, 999), "stored": r.random() < 0.3,
            "xml_decl_rels": r.random() < 0.8,
            # the package's own XML items in another equivalent spelling (namespace prefix, one attribute per line, UTF-16)
            "pkg_xml_style": r.choice([None, None, None, "prefixed", "multiline", "utf16", "mixed"])}


def spell(r: random.Random, src: str, tgt: str) -> str:
    """A spelling of a reference from `src` to `tgt` (all resolve to tgt per RFC 3986)."""
    k = r.random()
    rel = pkgxform.relref(src, tgt)
    if k < 0.45:
        return rel
    if k < 0.6:
        return tgt  # root-absolute
    if k < 0.72:
        return "./" + rel
    if k < 0.84:
        segs = rel.split("/")
        if len(segs) >= 2 and segs[0] != "..":
            return segs[0] + "/../" + rel
        return "zz/../" + rel if not rel.startswith("..") else rel
    if k < 0.92:
        return "./" + "./" + rel
    return tgt if src != "/" else "/" + rel


def xml_payload(seed: int) -> bytes:
    r = random.Random(seed)
    ns = r.choice(["http://schemas.openxmlformats.org/presentationml/2006/main",
                   "http://schemas.openxmlformats.org/drawingml/2006/main", "urn:x"])
    kids = []
    for i in range(r.randint(0, 4)):
        t = r.choice(["plain", " lead", "trail ", "a&amp;b &lt;c&gt;", "\u00e9\u4e2d\U0001F600", "", "  "])
        attr = r.choice(["", ' v="1"', ' v="a&amp;b" w=\'x"y\'', ' xml:space="preserve"'])
        kids.append("<p:e%d%s>%s</p:e%d>" % (i, attr, t, i))
    sep = r.choice(["", "\n  ", "\r\n\t"])
    body = sep.join(kids)
    decl = r.choice(["<?xml version='1.0' encoding='UTF-8' standalone='yes'?>\n", '<?xml version="1.0"?>', ""])
    cmt = r.choice(["", "<!-- c -->"])
    return ("%s<p:root xmlns:p=\"%s\" xmlns:q=\"urn:q\" q:a=\"1\">%s%s%s%s</p:root>" % (decl, ns, sep, body, cmt, sep)).encode("utf-8")


def payload_bytes(p: dict) -> bytes:
    if p["kind"] == "xml":
        return xml_payload(p["seed"])
    return random.Random(p["seed"]).randbytes(p["len"])


def rels_xml(rels, decl=True) -> bytes:
    from xml.sax.saxutils import quoteattr
    out = ["<?xml version='1.0' encoding='UTF-8' standalone='yes'?>\n" if decl else "",
           '<Relationships xmlns="%s">' % refpkg.NS_REL]
    for x in rels:
        tm = ' TargetMode="External"' if x["mode"] == "External" else (' TargetMode="Internal"' if x.get("explicit") else "")
        out.append("<Relationship Id=%s Type=%s Target=%s%s/>" % (quoteattr(x["id"]), quoteattr(x["type"]),
                                                                 quoteattr(x["target"]), tm))
    out.append("</Relationships>")
    return "".join(out).encode("utf-8")


def build_pkg(rec: dict) -> bytes:
    from xml.sax.saxutils import quoteattr
    members = []
    ct = ["<?xml version='1.0' encoding='UTF-8' standalone='yes'?>\n", '<Types xmlns="%s">' % refpkg.NS_CT]
    has_rels_default = any(e.lower() == "rels" for e, _ in rec["defaults"])
    if not has_rels_default:
        ct.append('<Default Extension="rels" ContentType="application/vnd.openxmlformats-package.relationships+xml"/>')
    for e, t in rec["defaults"]:
        ct.append("<Default Extension=%s ContentType=%s/>" % (quoteattr(e), quoteattr(t)))
    for n, t in rec["overrides"]:
        ct.append("<Override PartName=%s ContentType=%s/>" % (quoteattr(n), quoteattr(t)))
    ct.append("</Types>")
    members.append(("[Content_Types].xml", "".join(ct).encode("utf-8")))
    members.append(("_rels/.rels", rels_xml(rec["root_rels"], rec.get("xml_decl_rels", True))))
    for p in rec["parts"]:
        members.append((p["name"][1:], payload_bytes(p["payload"])))
        if p["rels"]:
            members.append((refpkg.rels_name_for(p["name"])[1:], rels_xml(p["rels"], rec.get("xml_decl_rels", True))))
    random.Random(rec.get("order_seed", 0)).shuffle(members)
    data = pkgxform.write_members(members, stored=rec.get("stored", False))
    if rec.get("pkg_xml_style"):
        data = pkgxform.respell_package_xml(data, rec["pkg_xml_style"], rec.get("order_seed", 0))
    return data


# ---- execution ------------------------------------------------------------------------------------------

def _open(data: bytes, form: str, pos: int, api: str, disk: SimDisk, tag: str):
    import pptx
    from pptx.package import Package
    opener_ = pptx.Presentation if api == "presentation" else Package.open

    def opener(arg):
        # liveness: one open enters a bounded number of Python functions (seams.step_budget: deterministic step count, not wall-clock)
        try:
            with seams.step_budget(seams.budget_for(data)):
                return opener_(arg)
        except seams.StepBudgetExceeded as e:
            raise Violation("liveness|open-exceeded-step-budget|%s" % form, str(e), CLAUSES["open"])

    if form == "path":
        disk.put(tag, data)
        p = disk.materialize(tag, ".pptx")
        try:
            return opener(p)
        finally:
            os.unlink(p)
    if form in ("dir", "dirlink"):
        disk.put(tag, data)
        d = disk.materialize_dir(tag, link=(form == "dirlink"))
        try:
            return opener(d)
        finally:
            shutil.rmtree(d, ignore_errors=True)
            shutil.rmtree(d + ".linked", ignore_errors=True)
    return opener(SimSource(data, pos=pos))


PREAMBLE = b"#!caller-owned header, 64 bytes, written before the package\n".ljust(64, b".")


def _save(obj, sink: str) -> bytes:
    if sink == "preamble":
        # a seekable stream that already holds caller data, positioned at its end (self-extracting stub, container header): the package
        # goes where the cursor is and the caller's bytes stay
        s = SimSink("seekable")
        s.write(PREAMBLE)
        obj.save(s)
        img = s.image()
        if img[:len(PREAMBLE)] != PREAMBLE:
            raise Violation("sink|caller-data-before-the-package-overwritten", "first bytes now %r" % img[:24], CLAUSES["parts"])
        return img
    if sink == "path":
        p = os.path.join(scratch_dir(), "c01-out.pptx")
        obj.save(p)
        with open(p, "rb") as f:
            b = f.read()
        os.unlink(p)
        return b
    s = SimSink(sink)
    obj.save(s)
    return s.image()


def compare(ref_in: refpkg.RefPackage, ref_out: refpkg.RefPackage, report):
    want = set(ref_in.reachable)
    got = set(ref_out.part_names())
    if want != got:
        miss, extra = sorted(want - got), sorted(got - want)
        kind = "missing" if miss else "extra"
        report("parts|%s|ext=%s" % (kind, refpkg.ext_of((miss or extra)[0]).lower()),
               "missing=%s extra=%s" % (miss[:5], extra[:5]), CLAUSES["parts"])
        return
    for n in sorted(want):
        a, b = ref_in.content_type(n), ref_out.content_type(n)
        if a != b:
            report("ctype-changed|ext=%s|from=%s|to=%s" % (refpkg.ext_of(n).lower(), a, b), n, CLAUSES["ctype"])
        x, y = ref_in.members[n], ref_out.members[n]
        if x != y:
            if refpkg.is_xml_type(a, n):
                try:
                    same = refpkg.c14n(x) == refpkg.c14n(y)
                except Exception as e:  # noqa: BLE001
                    same = False
                if not same:
                    report("payload|xml-not-equivalent|%s" % a.rpartition(".")[2], n, CLAUSES["payload"])
            else:
                report("payload|bytes-differ|%s" % a, n, CLAUSES["payload"])
    for src in ["/"] + sorted(want):
        a, b = ref_in.live_rels(src), ref_out.live_rels(src)
        if a != b:
            report("rels|differ|%s" % _rel_diff_class(a, b), "source=%s\n in=%s\nout=%s" % (src, a, b), CLAUSES["rels"])
    # output has no stray rels items
    for n in ref_out.members:
        if refpkg._is_rels_item(n):
            src = refpkg._source_of_rels_item(n)
            if src != "/" and src not in want:
                report("parts|stray-rels-item", n, CLAUSES["parts"])


def _rel_diff_class(a, b):
    sa, sb = set(a), set(b)
    if len(a) != len(b):
        return "count"
    for x in sa - sb:
        for y in sb - sa:
            if x[0] == y[0]:
                diffs = [f for f, i in (("type", 1), ("mode", 2), ("target", 3)) if x[i] != y[i]]
                return "same-id-different-" + "+".join(diffs)
    return "ids"


def execute(trace: dict, known, collect_log=True) -> dict:
    from .. import findings
    clock = seams.CLOCK
    clock.reset()
    log = []
    res = {"violation": None, "error": None, "known_hits": {}, "faults": {}, "probes": FaultCounters(),
           "stats": FaultCounters(), "outcomes": [], "states": []}

    def report(sig, detail="", clause=""):
        k = findings.match_known(known, ID, sig)
        if k is not None:
            res["known_hits"][k] = res["known_hits"].get(k, 0) + 1
            return
        raise Violation(sig, detail, clause)

    try:
        disk = SimDisk()
        if "deck" in trace:
            with open(os.path.join(os.path.dirname(os.path.dirname(os.path.dirname(__file__))), "decks", trace["deck"]), "rb") as f:
                data = f.read()
        else:
            data = build_pkg(trace["pkg"])
        cyc = trace["cycle"]
        ref_in = refpkg.RefPackage.from_bytes(data)
        log.append({"in": sha(data)[:12], "reach": len(ref_in.reachable)})
        if ref_in.dangling:
            raise RuntimeError("generator produced dangling rels: %r" % ref_in.dangling[:3])
        neighbour = None
        if cyc.get("neighbour") and cyc["api"] == "presentation":
            # another document in the same process: the same file opened as a second object and edited through the public API (kept alive,
            # never saved).  The object under test is opened afterwards and saved unchanged.
            import pptx as _pptx
            neighbour = _pptx.Presentation(SimSource(data))
            for m_ in neighbour.slide_masters:
                m_.name = "edited in the neighbour"
                for l_ in m_.slide_layouts:
                    l_.name = "edited in the neighbour"
            for s_ in neighbour.slides:
                s_.name = "edited in the neighbour"
                for sh_ in s_.shapes:
                    sh_.name = "edited in the neighbour"
                    sh_.left = 12345
            if len(neighbour.slide_layouts):
                neighbour.slides.add_slide(neighbour.slide_layouts[0])
            neighbour.slide_width = 7777777
            res["stats"].hit("c01_neighbour_document_edited")
        try:
            obj = _open(data, cyc["form"], cyc.get("pos", 0), cyc["api"], disk, "in")
        except Exception as e:  # noqa: BLE001
            import traceback
            report("open|raises|%s" % type(e).__name__, traceback.format_exc()[-1500:], CLAUSES["open"])
            raise Violation("unreachable")
        res["outcomes"].append("ok")
        clock.jump(cyc.get("jump1", 0))
        out1 = _save(obj, cyc["sink1"])
        ref1 = refpkg.RefPackage.from_bytes(out1)
        if ref1.dup_members:
            report("parts|duplicate-member", str(ref1.dup_members[:3]), CLAUSES["parts"])
        compare(ref_in, ref1, report)
        res["outcomes"].append("ok")
        clock.jump(cyc.get("jump2", 0))
        obj2 = _open(out1, cyc.get("form2", "stream"), 0, cyc["api"], disk, "out1")
        out2 = _save(obj2, cyc["sink2"])
        ref2 = refpkg.RefPackage.from_bytes(out2)
        if sorted(ref1.members) != sorted(ref2.members):
            report("fixpoint|member-set", "%s vs %s" % (sorted(ref1.members)[:8], sorted(ref2.members)[:8]), CLAUSES["fixpoint"])
        else:
            for n in ref1.members:
                if ref1.members[n] != ref2.members[n]:
                    report("fixpoint|bytes|%s" % ("rels" if n.endswith(".rels") else refpkg.ext_of(n).lower()), n, CLAUSES["fixpoint"])
        _open(out2, "stream", 0, cyc["api"], disk, "out2")
        res["outcomes"].append("ok")
        log.append({"out1": hashlib.sha1(jdump(sorted((n, sha(b)) for n, b in ref1.members.items())).encode()).hexdigest()[:12]})
        feats = _features(trace, ref_in)
        res["stats"].hit("c01_cycles")
        for f in feats:
            res["stats"].hit("feat_" + f)
        res["states"] = [jdump([len(ref_in.reachable), sorted(feats)])]
        res["_feats"] = sorted(feats)
    except Violation as v:
        res["violation"] = {"sig": v.sig, "detail": v.detail[:4000], "clause": v.clause, "event_index": 0}
        log.append({"violation": v.sig})
    except Exception:  # noqa: BLE001
        import traceback
        res["error"] = "harness exception:\n" + traceback.format_exc()[-3000:]
    res["digest"] = hashlib.sha256(jdump(log).encode()).hexdigest()
    res["faults"] = {}
    res["probes"] = dict(res["probes"])
    res["stats"] = dict(res["stats"])
    res["n_events"] = 5
    res["sim_seconds"] = clock.elapsed
    res["clock_jumps"] = clock.jumps
    res["clock_back_jumps"] = clock.back_jumps
    if collect_log:
        res["log"] = log
    return res


def _features(trace, ref_in):
    f = set()
    if "pkg" not in trace:
        f.add("corpus")
        return f
    rec = trace["pkg"]
    tg = {}
    for src, rels in ref_in.rels.items():
        for x in rels:
            if x.mode == "External":
                f.add("external")
                continue
            tg.setdefault(x.target, []).append(src)
            if x.target == src:
                f.add("selfloop")
            raw = x.target_raw
            if raw.startswith("/"):
                f.add("abs-target")
            elif raw.startswith("./") or "/../" in raw:
                f.add("dotted-target")
            elif raw.startswith("../"):
                f.add("updir-target")
            if not (x.rid.startswith("rId") and x.rid[3:].isdigit() and not x.rid[3:].startswith("0")):
                f.add("odd-rid")
    if any(x.get("explicit") for p_ in rec["parts"] for x in p_["rels"]) or any(x.get("explicit") for x in rec["root_rels"]):
        f.add("explicit-internal-target-mode")
    if rec.get("pkg_xml_style"):
        f.add("package-xml-respelled")
    if any("%" in t_ for t_ in tg):
        f.add("percent-escaped-part-name-reachable")
    if any(len(v) > 1 for v in tg.values()):
        f.add("shared-target")
    exts = {}
    for p in rec["parts"]:
        exts.setdefault(refpkg.ext_of(p["name"]).lower(), set()).add(p["ctype"])
    if any(len(v) > 1 for v in exts.values()):
        f.add("shared-ext-different-types")
    if any(p["payload"]["kind"] == "xml" for p in rec["parts"]):
        f.add("xmlpart")
    if len(ref_in.reachable) < len(rec["parts"]):
        f.add("unreachable-members")
    return f


def plan(tier):
    n_corpus = len(common.corpus_decks())
    if tier == "quick":
        return {"runs": 30000, "budget_s": 70, "chunk": 250}
    return {"runs": 200000, "budget_s": 600, "chunk": 400}


def gen_trace(seed: int, tier: str) -> dict:
    S = Streams(seed)
    r = S("cycle")
    cyc = {"form": r.choice(["stream", "path", "dir", "dirlink"]), "pos": r.choice([0, 0, 9, 10 ** 8]),
           "sink1": r.choice(["seekable", "unseekable", "path"]), "sink2": r.choice(["seekable", "unseekable", "path"]),
           "form2": r.choice(["stream", "path", "dir", "dirlink"]), "api": "package",
           "jump1": r.choice([0, 0, 3600, -86400 * 400, 86400 * 9000]), "jump2": r.choice([0, 0, -7200, 86400 * 365])}
    t = {"property": ID, "seed": seed, "tier": tier, "cycle": cyc, "events": []}
    if r.random() < 0.15:
        cyc["sink1"] = "preamble"
    if r.random() < 0.04:
        t["deck"] = r.choice(common.corpus_decks())
        cyc["api"] = r.choice(["package", "presentation"])
        cyc["neighbour"] = r.random() < 0.5
    else:
        t["pkg"] = gen_pkg(S("pkg"))
    return t


def make_oracles(trace):
    return []


def nontrivial(trace, res):
    feats = set(res.get("_feats") or [])
    return "corpus" in feats or (len(feats - {"xmlpart"}) >= 1 and res["stats"].get("c01_cycles", 0) >= 1
                                 and len(trace.get("pkg", {}).get("parts", [])) >= 3)


def pinned_traces(tier):
    out = []
    cyc = {"form": "stream", "pos": 0, "sink1": "seekable", "sink2": "seekable", "form2": "stream", "api": "package"}
    # every corpus deck, both APIs
    for d in common.corpus_decks():
        for api, form in (("package", "stream"), ("presentation", "path"), ("presentation", "dir"), ("package", "dirlink")):
            out.append({"property": ID, "seed": "corpus-%s-%s" % (d, api), "tier": "pinned", "deck": d,
                        "cycle": dict(cyc, api=api, form=form), "events": []})
        out.append({"property": ID, "seed": "corpus-%s-neighbour" % d, "tier": "pinned", "deck": d,
                    "cycle": dict(cyc, api="presentation", form="stream", neighbour=True, sink1="preamble"), "events": []})
    from .pinned import c01 as p
    out.extend(p.traces())
    return out


def shrink_candidates(trace):
    """Smaller variants of a failing case: drop one part (with the relationships that target it), drop one relationship,
    drop declarations, plain cycle."""
    import copy
    out = []
    cyc = trace["cycle"]
    plain = dict(cyc, form="stream", pos=0, sink1="seekable", sink2="seekable", form2="stream", jump1=0, jump2=0)
    if plain != cyc:
        out.append(dict(trace, cycle=plain))
    if "pkg" not in trace:
        return out
    rec = trace["pkg"]
    parts = rec["parts"]
    for i in range(len(parts)):
        r2 = copy.deepcopy(rec)
        gone = r2["parts"].pop(i)["name"]
        def keep(src, x):
            if x["mode"] == "External":
                return True
            return refpkg.resolve(src, x["target"]) != gone
        r2["root_rels"] = [x for x in r2["root_rels"] if keep("/", x)]
        for p_ in r2["parts"]:
            p_["rels"] = [x for x in p_["rels"] if keep(p_["name"], x)]
        r2["overrides"] = [o for o in r2["overrides"] if o[0].lower() != gone.lower()]
        out.append(dict(trace, pkg=r2))
    for i in range(len(rec["root_rels"])):
        r2 = copy.deepcopy(rec)
        r2["root_rels"].pop(i)
        out.append(dict(trace, pkg=r2))
    for pi, p_ in enumerate(parts):
        for i in range(len(p_["rels"])):
            r2 = copy.deepcopy(rec)
            r2["parts"][pi]["rels"].pop(i)
            out.append(dict(trace, pkg=r2))
    if rec.get("stored") or rec.get("order_seed"):
        out.append(dict(trace, pkg=dict(rec, stored=False, order_seed=0)))
    return out[:80]
