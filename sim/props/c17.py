"""C17 - connector endpoints, group extents and freeform bounds obey their geometry."""
from __future__ import annotations

import os

from .. import ops as O
from .. import refpkg
from ..engine import Oracle
from ..rng import Streams
from . import common

ID = "C17"
LEVEL = "exploration"
RULE = ("seeded histories: connectors created at seeded endpoints (coincident, crossing, occasionally negative) then "
        "single-coordinate moves that cross the other endpoint in either axis and begin/end_connect; groups nested to "
        "depth 4 populated by every add_* kind (autoshape, textbox, picture, connector, chart, subgroup, freeform) at seeded "
        "coordinates; freeform pens with negative, fractional, repeated vertices, several contours, non-uniform scale, on "
        "slides and inside groups; checkpoints and restarts; oracle = geometric reference models (endpoint tuple, bounding "
        "box recursion incl. a:chOff/a:chExt parsed from the serialised part, scaled vertex bbox and path extents); "
        "non-trivial = >=3 effective geometry operations; distinct = distinct event-log digest")
ASSUMPTIONS = [
    "group extents are required after ADDITIONS (as stated); histories do not move members of groups afterwards",
    "an empty sub-group contributes (0,0,0,0) or nothing to its parent's bounding box: both readings are accepted",
    "freeform position/size are compared with the model to within 1 EMU (rounding mode not asserted)",
    "freeform scales are positive",
]
CLAUSES = {
    "cxn-create": "A connector reports the begin and end points it was created with",
    "cxn-move": "moving one endpoint coordinate changes only that coordinate, keeps the other endpoint fixed and keeps "
                "width and height non-negative",
    "group": "A group's position and size always equal the bounding box of its member shapes, recursively, after any additions",
    "freeform": "a freeform shape's position and size equal the scaled bounding box of its vertices offset by the given "
                "origin, and all its path coordinates lie within its path extents",
    "persist": "(re-read after save/re-open: flips and extents are durable state)",
}
A = "{http://schemas.openxmlformats.org/drawingml/2006/main}"
P = "{http://schemas.openxmlformats.org/presentationml/2006/main}"


def _memo(deck):
    return deck.memo.setdefault("c17", {"cxn": {}, "clean": {}})


def _gk(sl, g):
    return "%d|%d" % (sl.slide_id, g.shape_id)


def _mark(deck, sl, chain, clean):
    """Groups that were brought onto their member box by an addition ("clean") stay there durably; a group the caller moved, or whose
    member group was moved, or that PowerPoint wrote elsewhere, is not required to sit on its box until the next addition."""
    m = _memo(deck).setdefault("clean", {})
    for g in chain:
        if clean:
            m[_gk(sl, g)] = True
        else:
            m.pop(_gk(sl, g), None)


def _ends(c):
    return [int(c.begin_x), int(c.begin_y), int(c.end_x), int(c.end_y)]


def g_pt(r):
    k = r.random()
    if k < 0.06:
        return r.choice([0, 1, -1, -914400])
    return r.randint(0, 9000000)


# ---- connectors --------------------------------------------------------------------------------------------------

@O.op("c17.cxn_new", "c17", weight=2.0)
@O.gen(lambda r: dict(O.g_sl(r), type=r.choice(["STRAIGHT", "ELBOW", "CURVE"]), bx=g_pt(r), by=g_pt(r), ex=g_pt(r), ey=g_pt(r),
                      same=r.choice([None, None, None, "x", "y", "both"])))
def _cxn_new(w, deck, a):
    from pptx.enum.shapes import MSO_CONNECTOR
    sl = O.nav_slide(w, deck, a)
    if sum(1 for s in sl.shapes if type(s).__name__ == "Connector") >= 6:
        raise O.Skip("enough connectors")
    bx, by, ex, ey = a["bx"], a["by"], a["ex"], a["ey"]
    if a.get("same") in ("x", "both"):
        ex = bx
    if a.get("same") in ("y", "both"):
        ey = by
    c = sl.shapes.add_connector(getattr(MSO_CONNECTOR, a["type"]), bx, by, ex, ey)
    got = _ends(c)
    if got != [bx, by, ex, ey]:
        w.report("cxn-create|endpoints|%s" % _quad(bx, by, ex, ey), "created %r reads %r" % ([bx, by, ex, ey], got), CLAUSES["cxn-create"])
    if int(c.width) < 0 or int(c.height) < 0:
        w.report("cxn-create|negative-extent", "w=%d h=%d" % (c.width, c.height), CLAUSES["cxn-move"])
    _memo(deck)["cxn"]["%d|%d" % (sl.slide_id, c.shape_id)] = got
    w.stats.hit("c17_cxn_new")


def _quad(bx, by, ex, ey):
    return ("E" if ex > bx else ("W" if ex < bx else "=")) + ("S" if ey > by else ("N" if ey < by else "="))


@O.op("c17.cxn_move", "c17", weight=6.0)
@O.gen(lambda r: dict(O.g_sl(r), which=r.randint(0, 5), attr=r.choice(["begin_x", "begin_y", "end_x", "end_y"]), v=g_pt(r),
                      rel=r.choice([None, None, "cross", "onto", "back"]), held=r.random() < 0.5))
def _cxn_move(w, deck, a):
    sl = O.nav_slide(w, deck, a)
    cands = [s for s in sl.shapes if type(s).__name__ == "Connector"]
    if not cands:
        sls = O.slides_of(deck)
        for s2 in sls:
            cands = [s for s in s2.shapes if type(s).__name__ == "Connector"]
            if cands:
                sl = s2
                break
    c = O.pick(cands, a["which"])
    if a.get("held"):
        k = ("c17cxn", sl.slide_id, c.shape_id)
        c = deck.handles.setdefault(k, c)
    before = _ends(c)
    idx = ["begin_x", "begin_y", "end_x", "end_y"].index(a["attr"])
    other = before[(idx + 2) % 4]
    v = a["v"]
    if a.get("rel") == "cross":     # land on the far side of the other endpoint
        v = other + (1 if before[idx] <= other else -1) * (1 + a["v"] % 500000)
    elif a.get("rel") == "onto":    # exactly onto the other endpoint's coordinate
        v = other
    elif a.get("rel") == "back":
        v = before[idx]
    setattr(c, a["attr"], v)
    after = _ends(c)
    want = list(before)
    want[idx] = v
    if after != want:
        changed = [n for n, x, y in zip(("begin_x", "begin_y", "end_x", "end_y"), want, after) if x != y]
        w.report("cxn-move|%s|wrong=%s|%s" % (a["attr"], "+".join(changed), "crossing" if (before[idx] - other) * (v - other) < 0 else "same-side"),
                 "before=%r set %s=%d after=%r expected=%r" % (before, a["attr"], v, after, want), CLAUSES["cxn-move"])
    if int(c.width) < 0 or int(c.height) < 0:
        w.report("cxn-move|negative-extent", "w=%d h=%d" % (c.width, c.height), CLAUSES["cxn-move"])
    if (before[idx] - other) * (v - other) < 0:
        w.stats.hit("c17_cxn_crossings")
    _memo(deck)["cxn"]["%d|%d" % (sl.slide_id, c.shape_id)] = after
    w.stats.hit("c17_cxn_moves")


@O.op("c17.cxn_connect", "c17", weight=1.0)
@O.gen(lambda r: dict(O.g_sl(r), which=r.randint(0, 5), other=r.randint(0, 5), site=r.randint(0, 3), end=r.choice(["begin", "end"])))
def _cxn_connect(w, deck, a):
    sl = O.nav_slide(w, deck, a)
    cands = [s for s in sl.shapes if type(s).__name__ == "Connector"]
    autos = [s for s in sl.shapes if type(s).__name__ in ("Shape", "Picture") and s.width and s.height]
    c, tgt = O.pick(cands, a["which"]), O.pick(autos, a["other"])
    before = _ends(c)
    (c.begin_connect if a["end"] == "begin" else c.end_connect)(tgt, a["site"])
    after = _ends(c)
    keep = slice(2, 4) if a["end"] == "begin" else slice(0, 2)
    if after[keep] != before[keep]:
        w.report("cxn-move|connect-moved-other-endpoint|%s" % a["end"], "before=%r after=%r" % (before, after), CLAUSES["cxn-move"])
    if int(c.width) < 0 or int(c.height) < 0:
        w.report("cxn-move|negative-extent", "", CLAUSES["cxn-move"])
    _memo(deck)["cxn"]["%d|%d" % (sl.slide_id, c.shape_id)] = after
    w.stats.hit("c17_cxn_connects")


# ---- groups ----------------------------------------------------------------------------------------------------------

def _effectively_empty(s):
    """A group that (recursively) holds no leaf shape."""
    return type(s).__name__ == "GroupShape" and all(_effectively_empty(m) for m in s.shapes)


def _bbox(members, skip_empty_groups=False):
    boxes = []
    for s in members:
        if skip_empty_groups and _effectively_empty(s):
            continue
        boxes.append((int(s.left), int(s.top), int(s.width), int(s.height)))
    if not boxes:
        return (0, 0, 0, 0)
    x0 = min(b[0] for b in boxes)
    y0 = min(b[1] for b in boxes)
    x1 = max(b[0] + b[2] for b in boxes)
    y1 = max(b[1] + b[3] for b in boxes)
    return (x0, y0, x1 - x0, y1 - y0)


def _xml_group_xfrm(sl, shape_id):
    root = refpkg.parse(sl.part.blob)
    for g in root.iter(P + "grpSp"):
        c = g.find(P + "nvGrpSpPr/" + P + "cNvPr")
        if c is not None and c.get("id") == str(shape_id):
            x = g.find(P + "grpSpPr/" + A + "xfrm")
            if x is None:
                return None
            g_ = lambda tag, a1, a2: (int(x.find(A + tag).get(a1)), int(x.find(A + tag).get(a2)))  # noqa: E731
            return g_("off", "x", "y") + g_("ext", "cx", "cy"), g_("chOff", "x", "y") + g_("chExt", "cx", "cy")
    return None


def verify_group(w, sl, grp, when, depth):
    geom = (int(grp.left), int(grp.top), int(grp.width), int(grp.height))
    members = list(grp.shapes)
    ok = {_bbox(members), _bbox(members, skip_empty_groups=True)}
    if geom not in ok:
        w.report("group|extents-not-bbox|%s" % when,
                 "group id=%d depth=%d geom=%r bbox(members)=%r members=%r" % (
                     grp.shape_id, depth, geom, _bbox(members), [(type(m).__name__, int(m.left), int(m.top), int(m.width), int(m.height)) for m in members][:8]),
                 CLAUSES["group"])
    x = _xml_group_xfrm(sl, grp.shape_id)
    if x is not None:
        outer, child = x
        if outer != geom:
            w.report("group|xml-off-ext-differs|%s" % when, "api=%r xml=%r" % (geom, outer), CLAUSES["group"])
        if child != outer:
            w.report("group|chOff-chExt-differ|%s" % when, "off/ext=%r chOff/chExt=%r" % (outer, child), CLAUSES["group"])
    w.stats.hit("c17_groups_verified")


def _on_box(grp):
    geom = (int(grp.left), int(grp.top), int(grp.width), int(grp.height))
    members = list(grp.shapes)
    return geom in {_bbox(members), _bbox(members, skip_empty_groups=True)}


def _descend(sl, path):
    """Follow `path` through nested groups; returns (chain of GroupShape, deepest shapes collection)."""
    chain = []
    shapes = sl.shapes
    for i in path:
        groups = [s for s in shapes if type(s).__name__ == "GroupShape"]
        if not groups:
            break
        g = groups[i % len(groups)]
        chain.append(g)
        shapes = g.shapes
    return chain, shapes


def g_group_add(r):
    from .. import gens
    return dict(O.g_sl(r), path=[r.randint(0, 2) for _ in range(r.randint(0, 4))],
                kind=r.choice(["shape", "textbox", "picture", "connector", "subgroup", "freeform", "chart", "subgroup"]),
                x=g_pt(r), y=g_pt(r), cx=r.randint(0, 3000000), cy=r.randint(0, 3000000), ex=g_pt(r), ey=g_pt(r),
                img=gens.gen_image_recipe(r), ff=g_freeform(r))


@O.op("c17.group_add", "c17", weight=6.0)
@O.gen(g_group_add)
def _group_add(w, deck, a):
    from pptx.enum.shapes import MSO_CONNECTOR, MSO_SHAPE
    from .. import gens
    sl = O.nav_slide(w, deck, a)
    chain, shapes = _descend(sl, a["path"])
    if sum(1 for _ in O.walk_shapes(sl.shapes)) >= 40:
        raise O.Skip("max shapes")
    kind = a["kind"]
    if not chain and kind != "subgroup":
        kind = "subgroup"  # first create a group at slide level
    if kind == "subgroup" and len(chain) >= 4:
        kind = "shape"
    if kind == "shape":
        shapes.add_shape(MSO_SHAPE.RECTANGLE, a["x"], a["y"], a["cx"], a["cy"])
    elif kind == "textbox":
        shapes.add_textbox(a["x"], a["y"], a["cx"], a["cy"])
    elif kind == "picture":
        from ..disk import SimSource
        shapes.add_picture(SimSource(gens.image_bytes(a["img"])), a["x"], a["y"])
    elif kind == "connector":
        shapes.add_connector(MSO_CONNECTOR.STRAIGHT, a["x"], a["y"], a["ex"], a["ey"])
    elif kind == "chart":
        from pptx.chart.data import CategoryChartData
        from pptx.enum.chart import XL_CHART_TYPE
        cd = CategoryChartData()
        cd.categories = ["a", "b"]
        cd.add_series("s", [1, 2])
        shapes.add_chart(XL_CHART_TYPE.PIE, a["x"], a["y"], a["cx"], a["cy"], cd)
    elif kind == "freeform":
        _do_freeform(w, shapes, a["ff"], check=True)
    else:
        # an EMPTY group has no extent: the library does not recalculate on adding one, so groups that were on their member box stay on
        # it and the others are left alone (only groups that were on their box beforehand are judged)
        geo = lambda g: (int(g.left), int(g.top), int(g.width), int(g.height))  # noqa: E731
        before = [(geo(g), _on_box(g)) for g in chain]
        shapes.add_group_shape()
        for d, g in reversed(list(enumerate(chain))):
            gb, ok_ = before[d]
            if ok_ and geo(g) != gb:        # either untouched (the new member has no extent) or recalculated onto the box
                verify_group(w, sl, g, "after-add-%s" % kind, d + 1)
            elif not ok_ and geo(g) != gb:
                verify_group(w, sl, g, "after-add-%s" % kind, d + 1)
            if not _on_box(g):
                _mark(deck, sl, [g], False)
        w.stats.hit("c17_group_adds")
        return
    for d, g in reversed(list(enumerate(chain))):
        verify_group(w, sl, g, "after-add-%s" % kind, d + 1)
    _mark(deck, sl, chain, True)
    w.stats.hit("c17_group_adds")
    if len(chain) >= 3:
        w.stats.hit("c17_group_adds_depth3plus")


def g_group_of(r):
    from .. import gens
    n = r.choice([1, 2, 3, 4])
    return dict(O.g_sl(r), path=[r.randint(0, 2) for _ in range(r.randint(0, 3))],
                members=[{"kind": r.choice(["shape", "picture", "picture", "textbox"]), "x": g_pt(r), "y": g_pt(r), "cx": r.randint(1, 3000000), "cy": r.randint(1, 3000000),
                          "img": gens.gen_image_recipe(r), "src": O.g_src(r, 0.25)} for _ in range(n)], lazy=r.random() < 0.7)


@O.op("c17.group_of", "c17", weight=2.0)
@O.gen(g_group_of)
def _group_of(w, deck, a):
    """add_group_shape(shapes=...): the members are handed over as an iterable - a list of shapes made beforehand, or (the idiom
    `add_group_shape(add_picture(f) for f in files)`) a generator that creates them while it is consumed and may fail part-way on a
    read error.  Whatever groups exist afterwards sit on their member box."""
    from pptx.enum.shapes import MSO_SHAPE
    from .. import gens
    sl = O.nav_slide(w, deck, a)
    chain, shapes = _descend(sl, a["path"])
    if sum(1 for _ in O.walk_shapes(sl.shapes)) >= 36:
        raise O.Skip("max shapes")
    known = {s.shape_id for s in O.walk_shapes(sl.shapes) if type(s).__name__ == "GroupShape"}

    def make(mb):
        if mb["kind"] == "shape":
            return shapes.add_shape(MSO_SHAPE.RECTANGLE, mb["x"], mb["y"], mb["cx"], mb["cy"])
        if mb["kind"] == "textbox":
            return shapes.add_textbox(mb["x"], mb["y"], mb["cx"], mb["cy"])
        f, tmp = O._source_arg(w, gens.image_bytes(mb["img"]), {"src": mb["src"]}, fname="c17.png")
        try:
            return shapes.add_picture(f, mb["x"], mb["y"])
        finally:
            if tmp and os.path.exists(tmp):
                os.unlink(tmp)

    failed = None
    try:
        if a["lazy"]:
            shapes.add_group_shape(make(mb) for mb in a["members"])
        else:
            shapes.add_group_shape([make(mb) for mb in a["members"]])
    except OSError as e:
        failed = e
        w.stats.hit("c17_group_of_failed_part_way")
    # every group that exists now and did not before, and every group on the path, is judged
    def walk(coll, d):
        for s_ in coll:
            if type(s_).__name__ == "GroupShape":
                if s_.shape_id not in known and list(s_.shapes):
                    verify_group(w, sl, s_, "after-group-of%s" % ("-failed-part-way" if failed else ""), d)
                    _mark(deck, sl, [s_], True)
                walk(s_.shapes, d + 1)
    walk(sl.shapes, 1)
    if failed is None:
        for d, g in reversed(list(enumerate(chain))):
            verify_group(w, sl, g, "after-group-of", d + 1)
        _mark(deck, sl, chain, True)
    else:
        _mark(deck, sl, chain, False)     # members were added to the enclosing groups but the call did not complete
        return "iofault:%s" % type(failed).__name__
    w.stats.hit("c17_group_of")


def g_group_move(r):
    return dict(O.g_sl(r), path=[r.randint(0, 2) for _ in range(r.randint(1, 4))], attr=r.choice(["left", "top", "width", "height"]), v=g_pt(r),
                inside=r.random() < 0.7, img=None, which=r.choice([None, None, 0, 1, 2]), member=r.choice([None, None, 0, 1]))


@O.op("c17.group_move", "c17", weight=2.0)
@O.gen(g_group_move)
def _group_move(w, deck, a):
    """The caller moves or resizes a group through its public setters (legal; the property speaks about what the next ADDITION
    restores), then - most of the time - adds a member that lies INSIDE the present member box, so the box itself does not change
    and only the recalculation can bring the group (and every ancestor) back onto it."""
    from pptx.enum.shapes import MSO_SHAPE
    sl = O.nav_slide(w, deck, a)
    chain, shapes = _descend(sl, a["path"])
    if not chain:
        raise O.Skip("no group")
    g = chain[-1]
    # what is moved: the deepest group of the path, or an ancestor of it, or a leaf member of one of them (its group and everything
    # above go stale); the addition below always goes into the deepest group
    tgt = g if a.get("which") is None else chain[a["which"] % len(chain)]
    if a.get("member") is not None:
        leaves = [s_ for s_ in tgt.shapes if type(s_).__name__ != "GroupShape"]
        if leaves:
            tgt = leaves[a["member"] % len(leaves)]
            w.stats.hit("c17_group_member_moved")
    setattr(tgt, a["attr"], max(0, a["v"]) if a["attr"] in ("width", "height") else a["v"])
    _mark(deck, sl, chain, False)
    w.stats.hit("c17_group_moved")
    if tgt is not g:
        w.stats.hit("c17_moved_something_above_or_beside_the_group_added_to")
    if sum(1 for _ in O.walk_shapes(sl.shapes)) >= 40:
        return
    if a["inside"]:
        bx, by, bw, bh = _bbox(list(g.shapes))
        if not list(g.shapes):
            return
        shapes.add_shape(MSO_SHAPE.RECTANGLE, bx + bw // 4, by + bh // 4, bw // 2, bh // 2)
        w.stats.hit("c17_add_inside_member_box_after_move")
        for d, gg in reversed(list(enumerate(chain))):
            verify_group(w, sl, gg, "after-add-inside-box", d + 1)
        _mark(deck, sl, chain, True)


# ---- freeforms -----------------------------------------------------------------------------------------------------------

def g_freeform(r):
    def v():
        k = r.random()
        if k < 0.2:
            return r.choice([0, -1, 0.5, 1.5, 2.5, -0.5, 99.49, 100.5])
        if k < 0.4:
            return round(r.uniform(-500, 500), 2)
        return r.randint(-300, 1000)
    contours = []
    for _ in range(r.choice([1, 1, 2, 3])):
        pts = [[v(), v()] for _ in range(r.randint(1, 5))]
        if r.random() < 0.2 and pts:
            pts.append(list(pts[0]))  # repeated vertex
        contours.append({"move": [v(), v()], "pts": pts, "close": r.random() < 0.7})
    ff = {"sx": v(), "sy": v(), "scale": r.choice([1.0, 100.0, 914.4, 0.5, [2.0, 0.5], [1.0, 12700.0], [914.4, 914.4], 0.01]),
          "contours": contours, "ox": r.choice([0, 0, r.randint(0, 5000000)]), "oy": r.choice([0, r.randint(0, 5000000)])}
    if r.random() < 0.3:
        ff["peek"] = True      # read the builder's offsets before drawing anything
    if r.random() < 0.3:
        # the same builder is converted again after more segments were drawn (documented: may be called more than once)
        ff["again"] = {"pts": [[v(), v()] for _ in range(r.randint(1, 3))], "close": r.random() < 0.5,
                       "ox": r.randint(0, 3000000), "oy": r.randint(0, 3000000), "move_only": r.random() < 0.35}
    if r.random() < 0.25:
        ff["iter"] = True      # vertices handed over as a one-shot iterator
    return ff


def _r(x):
    return int(round(x))


def _do_freeform(w, shapes, ff, check=True):
    sc = ff["scale"]
    sx, sy = (sc if isinstance(sc, list) else (sc, sc))
    fb = shapes.build_freeform(ff["sx"], ff["sy"], scale=(sx, sy) if isinstance(sc, list) else sc)
    if ff.get("peek"):
        _ = (fb.shape_offset_x, fb.shape_offset_y)
    verts = [(_r(ff["sx"]), _r(ff["sy"]))]
    for i, c in enumerate(ff["contours"]):
        if i > 0:
            fb.move_to(c["move"][0], c["move"][1])
            verts.append((_r(c["move"][0]), _r(c["move"][1])))
        pts_ = [tuple(p) for p in c["pts"]]
        # the vertices may be any iterable (documented): a list, or a one-shot iterator such as zip(xs, ys)
        fb.add_line_segments(zip([p[0] for p in pts_], [p[1] for p in pts_]) if ff.get("iter") else pts_, close=c["close"])
        verts.extend((_r(p[0]), _r(p[1])) for p in c["pts"])
    sp = fb.convert_to_shape(ff["ox"], ff["oy"])
    if not check:
        return sp
    _check_freeform(w, sp, verts, sx, sy, sc, ff["ox"], ff["oy"])
    if ff.get("again"):
        ag = ff["again"]
        if ag.get("move_only"):
            # the pen is only MOVED (to a point that may lie outside everything drawn so far) before the builder is converted again
            fb.move_to(ag["pts"][0][0], ag["pts"][0][1])
            verts = verts + [(_r(ag["pts"][0][0]), _r(ag["pts"][0][1]))]
        else:
            fb.add_line_segments([tuple(p) for p in ag["pts"]], close=ag["close"])
            verts = verts + [(_r(p[0]), _r(p[1])) for p in ag["pts"]]
        sp2 = fb.convert_to_shape(ag["ox"], ag["oy"])
        _check_freeform(w, sp2, verts, sx, sy, sc, ag["ox"], ag["oy"])
        w.stats.hit("c17_freeform_builder_reused")
    w.stats.hit("c17_freeforms")
    if len(ff["contours"]) > 1:
        w.stats.hit("c17_freeforms_multicontour")
    return sp


def _check_freeform(w, sp, verts, sx, sy, sc, ox, oy):
    ff = {"ox": ox, "oy": oy}
    minx, maxx = min(v[0] for v in verts), max(v[0] for v in verts)
    miny, maxy = min(v[1] for v in verts), max(v[1] for v in verts)
    want = (ff["ox"] + minx * sx, ff["oy"] + miny * sy, (maxx - minx) * sx, (maxy - miny) * sy)
    got = (int(sp.left), int(sp.top), int(sp.width), int(sp.height))
    bad = [n for n, g, x in zip(("left", "top", "width", "height"), got, want) if abs(g - x) > 1.0]
    if bad:
        w.report("freeform|bbox|%s" % "+".join(bad), "got=%r want~%r verts=%r scale=%r origin=%r" % (got, want, verts[:8], sc, (ff["ox"], ff["oy"])), CLAUSES["freeform"])
    # path coordinates within path extents (parsed from the element's own serialisation via the part blob)
    root = refpkg.parse(sp.part.blob)
    for el in root.iter(P + "sp"):
        c = el.find(P + "nvSpPr/" + P + "cNvPr")
        if c is None or c.get("id") != str(sp.shape_id):
            continue
        for path in el.iter(A + "path"):
            pw, ph = int(path.get("w")), int(path.get("h"))
            if (pw, ph) != (maxx - minx, maxy - miny):
                w.report("freeform|path-extents", "path w,h=%r model=%r" % ((pw, ph), (maxx - minx, maxy - miny)), CLAUSES["freeform"])
            n = 0
            for pt in path.iter(A + "pt"):
                x, y = int(pt.get("x")), int(pt.get("y"))
                n += 1
                if not (0 <= x <= pw and 0 <= y <= ph):
                    w.report("freeform|point-outside-path-extents", "pt=(%d,%d) w,h=(%d,%d)" % (x, y, pw, ph), CLAUSES["freeform"])
            if n != len(verts):
                w.report("freeform|vertex-count", "path has %d points, %d vertices given" % (n, len(verts)), CLAUSES["freeform"])
        break


@O.op("c17.freeform", "c17", weight=3.0)
@O.gen(lambda r: dict(O.g_sl(r), ff=g_freeform(r)))
def _freeform(w, deck, a):
    sl = O.nav_slide(w, deck, a)
    if sum(1 for _ in O.walk_shapes(sl.shapes)) >= 40:
        raise O.Skip("max shapes")
    _do_freeform(w, sl.shapes, a["ff"])


class GeomOracle(Oracle):
    name = "c17"

    def _verify(self, w, deck, prs, when):
        m = _memo(deck)
        for k, ends in sorted(m["cxn"].items()):
            sid, shid = map(int, k.split("|"))
            sl = prs.slides.get(sid)
            c = None
            if sl is not None:
                for s in sl.shapes:
                    if s.shape_id == shid and type(s).__name__ == "Connector":
                        c = s
            if c is None:
                w.report("persist|connector-gone|%s" % when, k, CLAUSES["persist"])
                continue
            if _ends(c) != ends:
                w.report("persist|connector-endpoints|%s" % when, "expected=%r got=%r" % (ends, _ends(c)), CLAUSES["persist"])
            w.stats.hit("c17_persist_checks")
        for sl in prs.slides:
            def walk(shapes, d):
                for s in shapes:
                    if type(s).__name__ == "GroupShape":
                        walk(s.shapes, d + 1)
                        if _gk(sl, s) in m.get("clean", {}):
                            verify_group(w, sl, s, when, d)
            walk(sl.shapes, 1)

    def on_checkpoint(self, w, deck, image, ev):
        import pptx
        from ..disk import SimSource
        self._verify(w, deck, pptx.Presentation(SimSource(image)), "reopened-at-checkpoint")

    def on_restart(self, w, deck, ev):
        self._verify(w, deck, deck.prs, "after-restart")


def plan(tier):
    if tier == "quick":
        return {"runs": 2000, "budget_s": 75, "chunk": 12}
    return {"runs": 50000, "budget_s": 780, "chunk": 20}


def gen_trace(seed: int, tier: str) -> dict:
    S = Streams(seed)
    r = S("config")
    n = r.randint(10, 35) if tier == "quick" else r.randint(20, 90)
    events, sw = common.gen_history(seed, fault_rate=common.fault_arm(seed), n_events=n, families=["c17"], always=("c17",), ckpt=0.05, reopen=0.05,
                                    restart=0.03, observe=0.02, jump=0.0, fork=0.03, warmup=False)
    common.rewritten_between_sessions(seed, events, hows=("bool_words",))
    pre = [{"op": "add_slide", "layout": 6, "dt": 1.0}]
    return {"property": ID, "seed": seed, "tier": tier, "config": {"max_slides": 4},
            "start": [{"deck": S("start").choice(["default", "default", "f-shp-groupshape.pptx", "f-shp-connector-props.pptx", "f-shp-common-props.pptx", "f-shp-shapes.pptx"])}],
            "events": pre + events}


def make_oracles(trace):
    return [GeomOracle()]


def nontrivial(trace, res):
    st = res["stats"]
    return st.get("c17_cxn_moves", 0) + st.get("c17_group_adds", 0) + st.get("c17_freeforms", 0) >= 3


def pinned_traces(tier):
    out = []
    # four flip quadrants: each endpoint coordinate moved across the other endpoint and back
    for q, (bx, by, ex, ey) in enumerate([(100, 100, 900, 900), (900, 100, 100, 900), (100, 900, 900, 100), (900, 900, 100, 100),
                                          (500, 500, 500, 500)]):
        evs = [{"op": "add_slide", "layout": 6}, {"op": "c17.cxn_new", "slide": 0, "type": "STRAIGHT", "bx": bx, "by": by, "ex": ex, "ey": ey}]
        for attr in ("begin_x", "begin_y", "end_x", "end_y"):
            for rel in ("cross", "onto", "cross", "back", None):
                evs.append({"op": "c17.cxn_move", "slide": 0, "which": 0, "attr": attr, "v": 1234, "rel": rel, "held": rel == "cross"})
        evs += [{"op": "reopen", "sink": "seekable", "form": "stream"},
                {"op": "c17.cxn_move", "slide": 0, "which": 0, "attr": "end_x", "v": 7, "rel": "cross"}, {"op": "checkpoint", "sink": "seekable"}, {"op": "restart"}]
        out.append({"property": ID, "seed": "flip-quadrant-%d" % q, "tier": "pinned", "config": {"pinned": True}, "start": [{"deck": "default"}], "events": evs})
    # upward recursion: add to depth-3 nested group; freeform into a group
    ff = {"sx": 0, "sy": 0, "scale": 100.0, "contours": [{"move": [0, 0], "pts": [[50, 0], [50, 50], [0, 50]], "close": True}], "ox": 0, "oy": 0}
    img = {"fmt": "PNG", "w": 3, "h": 2, "seed": 1, "mode": "RGB", "dpi": None}
    base = {"x": 1000, "y": 1000, "cx": 500, "cy": 500, "ex": 9000, "ey": 9000, "img": img, "ff": ff}
    evs = [{"op": "add_slide", "layout": 6}]
    for path, kind, x in (([], "subgroup", 0), ([0], "shape", 1000), ([0], "subgroup", 0), ([0, 0], "shape", 200000), ([0, 0], "subgroup", 0),
                          ([0, 0, 0], "textbox", 5000000), ([0, 0, 0], "freeform", 0), ([0, 0, 0], "picture", 7000000), ([0, 0, 0], "connector", 10),
                          ([0, 0, 0], "chart", 8000000), ([0], "freeform", 0), ([0, 0, 0], "subgroup", 0), ([0, 0, 0, 0], "shape", 9000000)):
        evs.append(dict(base, op="c17.group_add", slide=0, path=path, kind=kind, x=x, y=x // 2))
    evs += [{"op": "checkpoint", "sink": "seekable"}, {"op": "restart"}]
    out.append({"property": ID, "seed": "upward-recursion", "tier": "pinned", "config": {"pinned": True}, "start": [{"deck": "default"}], "events": evs})
    # groups whose position differs from their member box (moved by the caller, or authored so by PowerPoint), then an addition inside the box
    evs = [{"op": "add_slide", "layout": 6}]
    for path, kind, x in (([], "subgroup", 0), ([0], "shape", 1000), ([0], "subgroup", 0), ([0, 0], "shape", 200000), ([0, 0], "textbox", 900000)):
        evs.append(dict(base, op="c17.group_add", slide=0, path=path, kind=kind, x=x, y=x // 2))
    for attr, v in (("left", 5000000), ("top", -300), ("width", 10), ("height", 7000000)):
        evs.append({"op": "c17.group_move", "slide": 0, "path": [0, 0], "attr": attr, "v": v, "inside": True})
        evs.append({"op": "c17.group_move", "slide": 0, "path": [0], "attr": attr, "v": v + 11, "inside": True})
    evs += [{"op": "checkpoint", "sink": "seekable"}, {"op": "restart"}]
    for which, member in ((0, None), (0, 0), (1, 0), (None, 0)):
        for attr, v in (("left", 4000000), ("height", 9000000)):
            evs.append({"op": "c17.group_move", "slide": 0, "path": [0, 0], "attr": attr, "v": v, "inside": True, "which": which, "member": member})
    out.append({"property": ID, "seed": "moved-group-then-add-inside-box", "tier": "pinned", "config": {"pinned": True}, "start": [{"deck": "default"}], "events": evs})
    # freeform: vertices as a one-shot iterator; the pen only moved (beyond everything drawn) before the builder is converted a second time
    for k, (again, it) in enumerate((({"pts": [[-400, -300]], "close": False, "ox": 0, "oy": 0, "move_only": True}, False),
                                     ({"pts": [[2000, 50]], "close": False, "ox": 10, "oy": 10, "move_only": True}, True), (None, True))):
        f2 = dict(ff, contours=[{"move": [0, 0], "pts": [[50, 0], [50, 50], [0, 50]], "close": True}, {"move": [10, 10], "pts": [[20, 30], [5, 5]], "close": False}], peek=(k == 0))
        if again:
            f2["again"] = again
        if it:
            f2["iter"] = True
        evs = [{"op": "add_slide", "layout": 6}, dict(base, op="c17.freeform", slide=0, ff=f2), {"op": "checkpoint", "sink": "seekable"}, {"op": "restart"}]
        out.append({"property": ID, "seed": "freeform-iterator-and-move-only-%d" % k, "tier": "pinned", "config": {"pinned": True}, "start": [{"deck": "default"}], "events": evs})
    # members handed to add_group_shape as an iterable that fails part-way (second picture unreadable), eager and lazy, top level and nested
    ok_src, bad_src = {"via": "stream", "pos": 0}, {"via": "stream", "pos": 0, "fault": {"kind": "eio", "at": 1}}
    mk = lambda kind, x, src: {"kind": kind, "x": x, "y": x // 2, "cx": 400000, "cy": 300000, "img": img, "src": src}  # noqa: E731
    evs = [{"op": "add_slide", "layout": 6}, dict(base, op="c17.group_add", slide=0, path=[], kind="subgroup"), dict(base, op="c17.group_add", slide=0, path=[0], kind="shape", x=3000000, y=3000000)]
    for lazy in (False, True):
        for path in ([], [0]):
            evs.append({"op": "c17.group_of", "slide": 0, "path": path, "lazy": lazy, "members": [mk("picture", 1000000, ok_src), mk("shape", 2000000, ok_src), mk("picture", 5000000, ok_src)]})
            evs.append({"op": "c17.group_of", "slide": 0, "path": path, "lazy": lazy, "members": [mk("picture", 1500000, ok_src), mk("picture", 2500000, bad_src), mk("shape", 4000000, ok_src)]})
            evs.append({"op": "c17.group_of", "slide": 0, "path": path, "lazy": lazy, "members": [mk("picture", 700000, {"via": "path", "fname": "gone.png", "fault": {"kind": "missing"}})]})
    evs += [{"op": "checkpoint", "sink": "seekable"}, {"op": "restart"}]
    out.append({"property": ID, "seed": "group-of-iterable-failing-part-way", "tier": "pinned", "config": {"pinned": True}, "start": [{"deck": "default"}], "events": evs})
    for dk in ("f-shp-common-props.pptx", "f-shp-groupshape.pptx", "f-shp-shapes.pptx"):
        evs = []
        for sl_ in range(3):
            for pth in ([0], [1], [0, 0]):
                evs.append({"op": "c17.group_move", "slide": sl_, "path": pth, "attr": "left", "v": 123456, "inside": True})
                evs.append(dict(base, op="c17.group_add", slide=sl_, path=pth, kind="shape", x=2000000, y=2000000, cx=10, cy=10))
        evs += [{"op": "checkpoint", "sink": "seekable"}, {"op": "restart"}]
        out.append({"property": ID, "seed": "authored-groups-%s" % dk, "tier": "pinned", "config": {"pinned": True}, "start": [{"deck": dk}], "events": evs})
    return out
