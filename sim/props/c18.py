"""C18 - core document properties round-trip and stay valid."""
from __future__ import annotations

import datetime as _dt
import io
import zipfile

from lxml import etree

from .. import ops as O
from .. import pkgxform, refpkg, seams, xsd
from ..engine import Oracle
from ..rng import Streams, xml_text
from . import common

ID = "C18"
LEVEL = "exploration"
RULE = ("seeded histories over the 15 core properties: strings of length 0..256 over XML characters (incl. markup, "
        "leading/trailing whitespace, astral), naive datetimes across years 1..9999 with microseconds, revision values "
        "incl. <=0 and non-ints, wrong types; on decks with and without a core-properties part (first access creates "
        "the default part, whose 'modified' must equal the simulated clock under forward/backward jumps); checkpoints "
        "and restarts; a reader arm feeds stored docProps/core.xml carrying every W3CDTF granularity and offsets in "
        "-14:00..+14:00; oracle = value model + independent W3CDTF reader + OPC core-properties XSD (stub Dublin Core "
        "schemas); non-trivial = >=3 effective assignments or >=3 stored timestamp forms read; distinct = log digest")
ASSUMPTIONS = [
    "datetimes assigned are naive (the API does not define what an aware datetime means); leap seconds excluded",
    "string values are str instances over the XML Char production; non-str arguments to string properties are not judged",
    "opc-coreProperties.xsd is validated with minimal stand-in Dublin Core schemas (schemas/dc/*.xsd, trusted base)",
    "a stored timestamp without offset is read as that wall time; date-only granularities as midnight of that day / first "
    "day of that month or year",
]
CLAUSES = {
    "string": "Each string core property accepts any string of up to 255 characters and returns it unchanged",
    "date": "each date property accepts any datetime and returns it to one-second resolution",
    "revision": "revision accepts positive integers",
    "reject": "other values raise ValueError",
    "default": "a package without core properties gains a default part on first access",
    "persist": "The values are the same after save and re-open",
    "xsd": "the core-properties part stays valid against the OPC core-properties schema",
    "offset": "W3CDTF timestamps carrying a time-zone offset are read as the equivalent UTC time",
}
STR_PROPS = ["author", "category", "comments", "content_status", "identifier", "keywords", "language",
             "last_modified_by", "subject", "title", "version"]
DATE_PROPS = ["created", "last_printed", "modified"]
ELEMENT_OF = {"created": ("dcterms", "created"), "modified": ("dcterms", "modified"), "last_printed": ("cp", "lastPrinted")}
NS = {"cp": "http://schemas.openxmlformats.org/package/2006/metadata/core-properties",
      "dc": "http://purl.org/dc/elements/1.1/", "dcterms": "http://purl.org/dc/terms/",
      "xsi": "http://www.w3.org/2001/XMLSchema-instance"}


def _memo(deck):
    return deck.memo.setdefault("c18", {"vals": {}})


def _enc(v):
    if isinstance(v, _dt.datetime):
        d = {"dt": [v.year, v.month, v.day, v.hour, v.minute, v.second, v.microsecond]}
        if v.tzinfo is not None:
            d["tz"] = int(v.utcoffset().total_seconds() // 60)
        return d
    return v


def _dec(v):
    if isinstance(v, dict) and "dt" in v:
        if v.get("tz") is not None:
            return seams._real_datetime(*v["dt"], tzinfo=_dt.timezone(_dt.timedelta(minutes=v["tz"])))
        return seams._real_datetime(*v["dt"])
    return v


def _same(prop, want, got):
    if prop in DATE_PROPS:
        if want is None or got is None:
            return want is got
        if not isinstance(got, seams._real_datetime):
            return False
        if want.tzinfo is not None:
            # a time-zone-aware datetime is "any datetime" too: what comes back is its wall-clock reading or the same instant in UTC
            # (the statement does not choose), to one second
            wall = want.replace(tzinfo=None)
            utc = (want - want.utcoffset()).replace(tzinfo=None)
            g = got.replace(tzinfo=None) if got.tzinfo is None else (got - got.utcoffset()).replace(tzinfo=None)
            return min(abs((g - wall).total_seconds()), abs((g - utc).total_seconds())) < 1.0
        return abs((got.replace(tzinfo=None) - want).total_seconds()) < 1.0
    return want == got and type(want) is type(got)


def verify_all(w, deck, prs, when):
    cp = prs.core_properties
    for prop, enc in sorted(_memo(deck)["vals"].items()):
        want = _dec(enc)
        got = getattr(cp, prop)
        if not _same(prop, want, got):
            kind = "date" if prop in DATE_PROPS else ("revision" if prop == "revision" else "string")
            w.report("persist|%s|%s|%s" % (kind, when, _diff_class(want, got)), "prop=%s want=%r got=%r" % (prop, want, got), CLAUSES["persist"])
        w.stats.hit("c18_persist_checks")


def _diff_class(want, got):
    if got is None:
        return "reads-None"
    if isinstance(want, str) and isinstance(got, str):
        if want.strip() == got.strip():
            return "edge-whitespace"
        if len(want) != len(got):
            return "length"
        return "content"
    if isinstance(want, seams._real_datetime) and isinstance(got, seams._real_datetime):
        return "off-by-%s" % ("hours" if abs((got - want).total_seconds()) >= 3600 else "seconds")
    return "type"


def validate_core(w, deck, when):
    part = None
    for p in deck.prs.part.package.iter_parts():
        if type(p).__name__ == "CorePropertiesPart":
            part = p
    if part is None:
        return
    name, sigs = xsd.validate_blob(part.blob)
    base = set(_memo(deck).get("xsd_base", []))
    for s in sigs:
        if s not in base:
            w.report(s, "when=%s\n%s" % (when, part.blob.decode("utf-8", "replace")[:1200]), CLAUSES["xsd"])
    w.stats.hit("c18_xsd_checks")


# ---- value generators ---------------------------------------------------------------------------------------------------

def g_string(r):
    k = r.random()
    if k < 0.1:
        return ""
    if k < 0.25:
        n = r.choice([254, 255, 255, 256, 257, 300])
        unit = r.choice(["x", "é", "\U0001F600", "&", "<", " "])
        return (unit * n)[:n]
    if k < 0.35:
        return r.choice([" lead", "trail ", "  ", "\n", "a\nb", "tab\there", "\r\n", "a\rb"])
    return xml_text(r, 40)


def g_datetime(r):
    k = r.random()
    if k < 0.12:
        y = r.choice([1, 2, 99, 100, 999, 1000])
    elif k < 0.2:
        y = r.choice([9999, 9998, 1899, 1900, 1970, 2038, 2107, 2108])
    else:
        y = r.randint(1000, 2200)
    m, d = r.randint(1, 12), r.randint(1, 28)
    if r.random() < 0.1:
        m, d = r.choice([(2, 29), (12, 31), (1, 1)])
        if (m, d) == (2, 29):
            y = r.choice([2000, 2004, 2024, 1600, 4])
    out = {"dt": [y, m, d, r.choice([0, 23, r.randint(0, 23)]), r.choice([0, 59, r.randint(0, 59)]),
                  r.choice([0, 59, r.randint(0, 59)]), r.choice([0, 0, 999999, 500000, r.randint(0, 999999)])]}
    if r.random() < 0.2 and 2 <= y <= 9998:
        out["tz"] = r.choice([0, 0, 60, -300, 330, 840, -720, r.randint(-840, 840)])     # time-zone-aware (datetime.now(timezone.utc) is the common case)
    return out


def g_set(r):
    k = r.random()
    if k < 0.55:
        return {"prop": r.choice(STR_PROPS), "value": g_string(r), "kind": "string"}
    if k < 0.8:
        return {"prop": r.choice(DATE_PROPS), "value": g_datetime(r), "kind": "date"}
    if k < 0.92:
        return {"prop": "revision", "value": r.choice([1, 2, 7, 2147483647, 10 ** 12, 0, -1, -100, 1.5, "3", None, True]), "kind": "revision"}
    return {"prop": r.choice(DATE_PROPS), "value": r.choice(["2020-01-01", 0, None, 1.5e9, {"date": [2020, 1, 2]}]), "kind": "baddate"}


@O.op("c18.set", "c18", weight=8.0)
@O.gen(g_set)
def _set(w, deck, a):
    cp = deck.prs.core_properties
    prop, kind = a["prop"], a["kind"]
    value = _dec(a["value"])
    if isinstance(value, dict) and "date" in value:
        value = _dt.date(*value["date"])
    if kind == "string":
        in_domain = len(value) <= 255
    elif kind == "date":
        in_domain = True
    elif kind == "revision":
        in_domain = isinstance(value, int) and not isinstance(value, bool) and value >= 1
    else:
        in_domain = False
    before = getattr(cp, prop)
    try:
        setattr(cp, prop, value)
        raised = None
    except ValueError as e:
        raised = e
    except Exception as e:  # noqa: BLE001
        raised = e
    if in_domain:
        if raised is not None:
            w.report("%s|in-domain-value-rejected|%s" % (kind, type(raised).__name__), "prop=%s value=%r exc=%r" % (prop, value, raised), CLAUSES[kind])
            return "undoc:%s" % type(raised).__name__
        got = getattr(cp, prop)
        if not _same(prop, value if kind != "date" else value, got):
            w.report("%s|read-after-write|%s" % (kind, _diff_class(value, got)), "prop=%s set=%r got=%r" % (prop, value, got), CLAUSES[kind])
        _memo(deck)["vals"][prop] = _enc(value)
        w.stats.hit("c18_sets")
        w.stats.hit("c18_set_%s" % kind)
        if kind == "date" and value.year < 1000:
            w.stats.hit("c18_year_below_1000")
    else:
        if raised is None:
            if kind == "revision" and isinstance(value, bool):
                # bool is an int subclass: True == 1 is a positive integer; accept either outcome
                _memo(deck)["vals"][prop] = int(getattr(cp, prop))
                return "ok"
            w.report("reject|out-of-domain-accepted|%s" % kind, "prop=%s value=%r now=%r" % (prop, value, getattr(cp, prop)), CLAUSES["reject"])
            return "ok"
        if not isinstance(raised, (ValueError, TypeError)) or (kind in ("string", "revision") and not isinstance(raised, ValueError)):
            w.report("reject|wrong-exception|%s|%s" % (kind, type(raised).__name__), "prop=%s value=%r exc=%r" % (prop, value, raised), CLAUSES["reject"])
        after = getattr(cp, prop)
        if not (after == before):
            w.report("reject|rejected-call-changed-value|%s" % kind, "prop=%s before=%r after=%r" % (prop, before, after), CLAUSES["reject"])
        w.stats.hit("c18_rejected")
    validate_core(w, deck, "after-set")
    return "ok" if raised is None else "rejected:%s" % type(raised).__name__


@O.op("c18.read_all", "c18", weight=2.0)
def _read_all(w, deck, a):
    verify_all(w, deck, deck.prs, "later")
    validate_core(w, deck, "read")


class CoreOracle(Oracle):
    name = "c18"

    def on_open(self, w, deck):
        m = _memo(deck)
        pkg = refpkg.RefPackage.from_bytes(deck.image)
        has_core = any(r.type.endswith("/core-properties") and r.target in pkg.members for r in pkg.rels_of("/") or [])
        first = "opened" not in m
        m["opened"] = True
        if first:
            m["core_rels_at_start"] = sum(1 for r in pkg.rels_of("/") or [] if r.type.endswith("/core-properties"))
            # schema errors already present in the stored core part are not blamed on later operations
            for r in pkg.rels_of("/") or []:
                if r.type.endswith("/core-properties") and r.target in pkg.members:
                    m["xsd_base"] = xsd.validate_blob(pkg.members[r.target])[1]
        if not has_core:
            # first access creates the default part and reads the (simulated) clock
            now = seams._real_datetime.fromtimestamp(w.clock.now, _dt.timezone.utc).replace(tzinfo=None)
            cp = deck.prs.core_properties
            got = (cp.title, cp.last_modified_by, cp.revision)
            if got != ("PowerPoint Presentation", "python-pptx", 1):
                w.report("default|values", "got=%r" % (got,), CLAUSES["default"])
            if cp.modified is None or abs((cp.modified - now).total_seconds()) >= 1.0:
                w.report("default|modified-not-the-current-time", "modified=%r simulated now=%r" % (cp.modified, now), CLAUSES["default"])
            if deck.prs.core_properties is not cp:
                w.report("default|created-twice", "", CLAUSES["default"])
            # a freshly created default part carries nothing else (nothing leaks in from another document or run)
            for a_ in STR_PROPS:
                if a_ not in ("title", "last_modified_by") and getattr(cp, a_) != "":
                    w.report("default|unset-string-property-not-empty", "%s=%r" % (a_, getattr(cp, a_)), CLAUSES["default"])
            for a_ in ("created", "last_printed"):
                if getattr(cp, a_) is not None:
                    w.report("default|unset-date-property-not-None", "%s=%r" % (a_, getattr(cp, a_)), CLAUSES["default"])
            # the durable image holds no core part, so nothing assigned earlier survived: the model restarts from
            # the freshly created default part
            m["vals"] = {}
            for k, v in (("title", cp.title), ("last_modified_by", cp.last_modified_by), ("revision", cp.revision), ("modified", cp.modified)):
                m["vals"][k] = _enc(v)
            w.probes.hit("default_core_part_created")
            validate_core(w, deck, "default-part")
        exp = (w.trace.get("start") or [{}])[0].get("c18_expect")
        if exp and first:
            cp = deck.prs.core_properties
            for prop, e in sorted(exp.items()):
                want = _dec(e["want"]) if e["want"] is not None else None
                got = getattr(cp, prop)
                w.stats.hit("c18_stored_forms_read")
                if want is None:
                    continue
                ok = got is not None and abs((got - want).total_seconds()) < 1.0
                if not ok:
                    w.report("offset|stored-%s|%s" % (e["form"], "reads-None" if got is None else _diff_class(want, got)),
                             "prop=%s lexical=%r want=%r got=%r" % (prop, e["lex"], want, got), CLAUSES["offset"])

    def on_checkpoint(self, w, deck, image, ev):
        import pptx
        from ..disk import SimSource
        pkg = refpkg.RefPackage.from_bytes(image)
        cores = [r for r in pkg.rels_of("/") or [] if r.type.endswith("/core-properties")]
        if len(cores) > max(1, _memo(deck).get("core_rels_at_start", 0)):
            w.report("default|more-than-one-core-properties-relationship", str(cores), CLAUSES["default"])
        for r in cores:
            if r.target in pkg.members:
                name, sigs = xsd.validate_blob(pkg.members[r.target])
                base = set(_memo(deck).get("xsd_base", []))
                for s in sigs:
                    if s not in base:
                        w.report(s, "saved %s\n%s" % (r.target, pkg.members[r.target].decode("utf-8", "replace")[:1200]), CLAUSES["xsd"])
        if _memo(deck)["vals"]:
            verify_all(w, deck, pptx.Presentation(SimSource(image)), "reopened-at-checkpoint")

    def on_restart(self, w, deck, ev):
        verify_all(w, deck, deck.prs, "after-restart")
        w.stats.hit("c18_restart_checks")


# ---- stored-state generator for the reader arm ------------------------------------------------------------------------------

def g_stored(r):
    """Lexical W3CDTF forms for created / modified / lastPrinted and the UTC value an independent reader assigns."""
    out = {}
    for prop in DATE_PROPS:
        y, mo, d = r.randint(1000, 2200), r.randint(1, 12), r.randint(1, 28)
        h, mi, s = r.randint(0, 23), r.randint(0, 59), r.randint(0, 59)
        form = r.choice(["year", "month", "day", "minute", "second", "second", "fraction"])
        tz = r.choice(["Z", "Z", "offset", "offset", "offset", "none"])
        off_min = 0
        tzs = ""
        if form in ("minute", "second", "fraction"):
            if tz == "Z":
                tzs = "Z"
            elif tz == "offset":
                off_min = r.choice([-14 * 60, 14 * 60, -8 * 60, 60, 330, -210, 45, -1, 0, r.randint(-840, 840)])
                sign = "-" if off_min < 0 else "+"
                tzs = "%s%02d:%02d" % (sign, abs(off_min) // 60, abs(off_min) % 60)
        if form == "year":
            lex, want = "%04d" % y, seams._real_datetime(y, 1, 1)
        elif form == "month":
            lex, want = "%04d-%02d" % (y, mo), seams._real_datetime(y, mo, 1)
        elif form == "day":
            lex, want = "%04d-%02d-%02d" % (y, mo, d), seams._real_datetime(y, mo, d)
        elif form == "minute":
            lex = "%04d-%02d-%02dT%02d:%02d%s" % (y, mo, d, h, mi, tzs)
            want = seams._real_datetime(y, mo, d, h, mi) - _dt.timedelta(minutes=off_min)
        elif form == "second":
            lex = "%04d-%02d-%02dT%02d:%02d:%02d%s" % (y, mo, d, h, mi, s, tzs)
            want = seams._real_datetime(y, mo, d, h, mi, s) - _dt.timedelta(minutes=off_min)
        else:
            frac = r.choice(["3", "30", "123", "999999", "0", "1234567", "000000001", "9999999999"])   # .NET writes 7 digits
            lex = "%04d-%02d-%02dT%02d:%02d:%02d.%s%s" % (y, mo, d, h, mi, s, frac, tzs)
            want = seams._real_datetime(y, mo, d, h, mi, s) - _dt.timedelta(minutes=off_min)
        judged = tzs not in ("",) or form in ("year", "month", "day", "second")
        # the statement's reading clause speaks about timestamps carrying an offset; forms without a zone designator are
        # only judged for the granularities the implementation documents (year, month, day, second)
        out[prop] = {"lex": lex, "form": form + ("+" + ("Z" if tzs == "Z" else "offset") if tzs else ""),
                     "want": _enc(want) if judged else None}
    return out


def core_xml(fields: dict) -> bytes:
    root = etree.Element("{%s}coreProperties" % NS["cp"], nsmap=NS)
    t = etree.SubElement(root, "{%s}title" % NS["dc"])
    t.text = "stored"
    for prop, e in fields.items():
        pfx, local = ELEMENT_OF[prop]
        el = etree.SubElement(root, "{%s}%s" % (NS[pfx], local))
        el.text = e["lex"]
        if pfx == "dcterms":
            el.set("{%s}type" % NS["xsi"], "dcterms:W3CDTF")
    return etree.tostring(root, xml_declaration=True, encoding="UTF-8", standalone=True)


def apply_core_xform(data: bytes, x: dict) -> bytes:
    members = pkgxform.read_members(data)
    blob = core_xml(x["fields"])
    out = [(n, blob if n == "docProps/core.xml" else b) for n, b in members]
    return pkgxform.write_members(out)


def plan(tier):
    if tier == "quick":
        return {"runs": 2500, "budget_s": 75, "chunk": 16}
    return {"runs": 80000, "budget_s": 780, "chunk": 30}


def gen_trace(seed: int, tier: str) -> dict:
    S = Streams(seed)
    r = S("config")
    n = r.randint(6, 25) if tier == "quick" else r.randint(10, 60)
    events, sw = common.gen_history(seed, fault_rate=common.fault_arm(seed), n_events=n, families=["c18"], always=("c18",), ckpt=0.08, reopen=0.08, restart=0.04,
                                    observe=0.0, jump=0.12, fork=0.06, warmup=False)
    rs = S("start")
    arm = rs.choice(["default", "default", "nocore", "nocore", "stored", "stored", "corpus"])
    cfg = {"arm": arm, "clock_start": rs.choice([seams.CLOCK_EPOCH, 946684800.0, 4102444800.0, 400000000.0, 1784116800.0, 1767225600.0]),
           # environment knob: the process time zone (UTC, central Europe with DST, US east with DST, India +05:30, NZ southern DST)
           "tz": rs.choice(["UTC", "UTC", "CET-1CEST,M3.5.0,M10.5.0/3", "EST5EDT,M3.2.0,M11.1.0", "IST-5:30", "NZST-12NZDT,M9.5.0,M4.1.0/3"])}
    if arm == "nocore":
        start = {"deck": rs.choice(["t-no-core-props.pptx", "default.pptx"])}
        if start["deck"] == "default.pptx":
            start["xform"] = [{"kind": "c16", "fault": "remove_core_props", "how": rs.choice(["member", "member+rel"])}]
    elif arm == "stored":
        fields = g_stored(S("stored"))
        start = {"deck": "default.pptx", "xform": [{"kind": "core_xml", "fields": fields}], "c18_expect": fields}
    elif arm == "corpus":
        start = {"deck": rs.choice(common.corpus_decks())}
    else:
        start = {"deck": "default.pptx"}
    start["form"] = rs.choice(["stream", "path", "dir"])
    pre = []
    if rs.random() < 0.5:
        pre.append({"op": "clock_jump", "by": rs.choice([-1, 1]) * rs.choice([3600.0, 86400.0 * 365 * 10, 86400.0 * 3000]), "dt": 1.0})
    return {"property": ID, "seed": seed, "tier": tier, "config": cfg, "start": [start], "events": pre + events}


def make_oracles(trace):
    xsd.schema("opc/opc-coreProperties.xsd")
    return [CoreOracle()]


def nontrivial(trace, res):
    st = res["stats"]
    return st.get("c18_sets", 0) >= 3 or st.get("c18_stored_forms_read", 0) >= 3


def pinned_traces(tier):
    out = []
    # default part under clock jump: no-core-props deck, jump -10y, first access, save, re-open
    for by in (-86400.0 * 3650, 86400.0 * 3650, 0.0):
        out.append({"property": ID, "seed": "default-part-clock-jump-%d" % int(by), "tier": "pinned", "config": {"pinned": True, "clock_start": seams.CLOCK_EPOCH + by},
                    "start": [{"deck": "t-no-core-props.pptx"}],
                    "events": [{"op": "c18.read_all"}, {"op": "clock_jump", "by": 86400.0 * 400}, {"op": "checkpoint", "sink": "seekable"}, {"op": "restart"},
                               {"op": "c18.set", "prop": "title", "value": "t", "kind": "string"}, {"op": "reopen", "sink": "path", "form": "dir"}]})
    # years below 1000, boundary strings, revisions
    evs = []
    for y in (1, 99, 999, 1000, 9999):
        for prop in DATE_PROPS:
            evs.append({"op": "c18.set", "prop": prop, "value": {"dt": [y, 1, 2, 3, 4, 5, 999999]}, "kind": "date"})
        evs.append({"op": "reopen", "sink": "seekable", "form": "stream"})
    for n in (0, 255, 256):
        evs.append({"op": "c18.set", "prop": "title", "value": "\U0001F600" * n, "kind": "string"})
        evs.append({"op": "c18.set", "prop": "keywords", "value": "&" * n, "kind": "string"})
    for v in (1, 0, -1, 1.5, "3", 2147483648):
        evs.append({"op": "c18.set", "prop": "revision", "value": v, "kind": "revision"})
    evs += [{"op": "checkpoint", "sink": "seekable"}, {"op": "restart"}]
    out.append({"property": ID, "seed": "boundaries", "tier": "pinned", "config": {"pinned": True}, "start": [{"deck": "default"}], "events": evs})
    # every W3CDTF granularity x zone designator, as stored state
    k = 0
    for form, lex, want in (
            ("year", "2003", [2003, 1, 1, 0, 0, 0, 0]), ("month", "2003-12", [2003, 12, 1, 0, 0, 0, 0]), ("day", "2003-12-31", [2003, 12, 31, 0, 0, 0, 0]),
            ("minute+Z", "2003-12-31T10:14Z", [2003, 12, 31, 10, 14, 0, 0]), ("minute+offset", "2003-12-31T10:14+01:00", [2003, 12, 31, 9, 14, 0, 0]),
            ("second+Z", "2003-12-31T10:14:55Z", [2003, 12, 31, 10, 14, 55, 0]), ("second+offset", "2003-12-31T10:14:55-08:00", [2003, 12, 31, 18, 14, 55, 0]),
            ("second+offset", "2003-12-31T10:14:55+14:00", [2003, 12, 30, 20, 14, 55, 0]), ("second+offset", "2003-12-31T10:14:55-14:00", [2004, 1, 1, 0, 14, 55, 0]),
            ("fraction+Z", "2003-12-31T10:14:55.30Z", [2003, 12, 31, 10, 14, 55, 0]), ("fraction+offset", "2003-12-31T10:14:55.30-08:00", [2003, 12, 31, 18, 14, 55, 0])):
        fields = {"created": {"lex": lex, "form": form, "want": {"dt": want}}}
        out.append({"property": ID, "seed": "stored-%s-%d" % (form, k), "tier": "pinned", "config": {"pinned": True},
                    "start": [{"deck": "default.pptx", "xform": [{"kind": "core_xml", "fields": fields}], "c18_expect": fields}],
                    "events": [{"op": "c18.read_all"}]})
        k += 1
    for tz in ("CET-1CEST,M3.5.0,M10.5.0/3", "EST5EDT,M3.2.0,M11.1.0", "NZST-12NZDT,M9.5.0,M4.1.0/3", "IST-5:30"):
        for start_t, lbl in ((1784116800.0, "jul"), (1767225600.0, "jan"), (1798761540.0, "dec31-2359")):
            out.append({"property": ID, "seed": "default-part-tz-%s-%s" % (tz.split(",")[0], lbl), "tier": "pinned",
                        "config": {"pinned": True, "clock_start": start_t, "tz": tz}, "start": [{"deck": "t-no-core-props.pptx"}],
                        "events": [{"op": "c18.read_all"}, {"op": "checkpoint", "sink": "seekable"}, {"op": "restart"}]})
    out.append({"property": ID, "seed": "two-coreless-decks", "tier": "pinned", "config": {"pinned": True}, "start": [{"deck": "t-no-core-props.pptx"}],
                "events": [{"op": "c18.set", "prop": "author", "value": "Alice", "kind": "string"}, {"op": "c18.set", "prop": "revision", "value": 7, "kind": "revision"},
                           {"op": "restart"},   # no checkpoint: the image still has no core part; a second default part is created in this process
                           {"op": "c18.read_all"}, {"op": "c18.set", "prop": "title", "value": "Deck A", "kind": "string"},
                           {"op": "fork", "sink": "seekable"}, {"op": "c18.set", "prop": "title", "value": "Deck B", "kind": "string", "deck": 1},
                           {"op": "c18.read_all", "deck": 0}, {"op": "c18.read_all", "deck": 1}, {"op": "checkpoint", "sink": "seekable", "deck": 0}, {"op": "restart", "deck": 0}]})
    return out
