"""C03 - every XML part stays schema-valid after any operations (differential XSD oracle)."""
from __future__ import annotations

import hashlib

from .. import xsd
from ..engine import Oracle
from ..rng import Streams
from . import common
from . import c09 as _c09  # noqa: F401  (registers the catalog assignment op)

ID = "C03"
LEVEL = "exploration"
RULE = ("seeded histories over the op alphabet (formatting-heavy swarm mix, documented-exception calls as API-level "
        "faults, source I/O faults) from the default template and every corpus deck; after EVERY event each XML part "
        "whose serialisation changed is validated against the vendored ISO/IEC 29500-4 transitional schemas after MCE "
        "preprocessing, differentially (a part may not acquire an error signature it did not have); non-trivial = "
        ">=3 effective state-changing events and >=5 part validations; distinct = distinct event-log digest")
ASSUMPTIONS = [
    "the vendored XSDs (copied from /repo/spec into /verif/schemas) + lxml/libxml2's validator are the oracle",
    "markup-compatibility preprocessing: Ignorable namespaces dropped, AlternateContent -> Fallback",
    "differential validity: errors already present in a part when it was loaded are not blamed on later operations",
    "parts whose root namespace has no schema here (diagram parts, vendor extensions) are skipped and counted",
    "a rejected call must leave parts 'as valid as they were' (statement); byte-identity is not demanded",
]
CLAUSE = ("any sequence of public-API operations leaves every XML part valid against those schemas; a call rejected "
          "with a documented exception leaves every part as valid as it was")


class XsdOracle(Oracle):
    name = "c03"

    def __init__(self, at_checkpoint_only=False):
        self.state = {}  # deck idx -> {id(part): (part, hash, frozenset(sigs))}
        self.acc = {}    # deck idx -> {partname: every signature accepted for that part so far} (survives re-opens: one schema error can hide
        #                  another from the validator, so an error of the START deck may be invisible at the moment of a re-open)
        self.ckpt_only = at_checkpoint_only

    def _scan(self, w, deck, baseline: bool):
        st = {} if baseline else self.state.get(deck.idx, {})
        new = {}
        pkg = deck.prs.part.package
        for part in pkg.iter_parts():
            el = getattr(part, "_element", None)
            if el is None:
                continue
            blob = part.blob
            h = hashlib.sha1(blob).digest()
            old = st.get(id(part))
            if old is not None and old[1] == h:
                new[id(part)] = old
                continue
            name, sigs = xsd.validate_root(el)
            if name is None:
                w.stats.hit("c03_parts_without_schema")
                new[id(part)] = (part, h, frozenset())
                continue
            w.stats.hit("c03_validations")
            sigs = frozenset(sigs)
            acc = self.acc.setdefault(deck.idx, {})
            if baseline:
                if sigs:
                    w.stats.hit("c03_baseline_invalid_parts")
                sigs = frozenset(sigs | acc.get(str(part.partname), frozenset()))
            else:
                base = old[2] if old is not None else frozenset()
                fresh = sorted(sigs - base)
                kept = set(base)
                for s in fresh:
                    w.report(s, "part=%s (%s)\n%s" % (part.partname, type(part).__name__, _context(el, s)), CLAUSE)
                    kept.add(s)  # known finding: continue with it as part of the baseline
                sigs = frozenset(kept | sigs)
            new[id(part)] = (part, h, sigs)
            acc[str(part.partname)] = frozenset(acc.get(str(part.partname), frozenset()) | sigs)
        self.state[deck.idx] = new

    def on_open(self, w, deck):
        self._scan(w, deck, baseline=True)

    def after_event(self, w, ev, outcome):
        if self.ckpt_only and ev["op"] not in ("checkpoint", "reopen"):
            return
        for deck in w.decks:
            if deck.alive and deck.prs is not None:
                self._scan(w, deck, baseline=False)


def _context(root, sig):
    """A little XML around the first offending element, for the replay report."""
    import re
    from lxml import etree
    m = re.search(r"Element '(\w+):(\w+)'", sig)
    if not m:
        return ""
    pfx, local = m.group(1), m.group(2)
    ns = {v: k for k, v in xsd.PREFIX.items()}.get(pfx)
    if ns is None:
        return ""
    for el in root.iter("{%s}%s" % (ns, local)):
        par = el.getparent()
        tgt = par if par is not None else el
        s = etree.tostring(tgt, pretty_print=True).decode("utf-8", "replace")
        return s[:1200]
    return ""


def plan(tier):
    if tier == "quick":
        return {"runs": 1200, "budget_s": 75, "chunk": 8}
    return {"runs": 30000, "budget_s": 780, "chunk": 12}


FORMAT_FAMILIES = ["text", "dml", "tables", "charts", "geometry", "actions", "shapes", "slides", "media", "rejected",
                   "package"]


def gen_trace(seed: int, tier: str) -> dict:
    S = Streams(seed)
    r = S("config")
    thorough = tier == "thorough"
    n = r.randint(10, 35) if not thorough else r.randint(20, 100)
    if r.random() < 0.3:
        # catalog arm: the property catalog of C09 (in-domain, None and out-of-domain assignments on a kit of objects)
        # under the XSD oracle: a rejected value must leave the part as valid as it was
        from . import c09
        c09.build_catalog()
        events, sw = common.gen_history(seed, n_events=n, families=["c09", "text", "dml", "charts"], always=("c09",),
                                        ckpt=0.02, reopen=0.06, restart=0.0, observe=0.02, jump=0.0, fork=0.0, warmup=False)
        # between two sessions another producer rewrites the file: optional children it writes and python-pptx never does (custom dashes on
        # outlines, shape properties in c:dLbls), booleans as words
        common.rewritten_between_sessions(seed, events, hows=("optional_children", "charts:optional_children", "bool_words"), rate=0.6)
        rb = S("bad")
        for e in events:
            if e["op"] == "c09.set" and rb.random() < 0.35 and c09.CAT[e["entry"]]["bad"]:
                e["kind"], e["v"] = "bad", rb.choice(c09.CAT[e["entry"]]["bad"])
        return {"property": ID, "seed": seed, "tier": tier, "config": {"arm": "catalog", "max_slides": 3, "max_shapes": 40},
                "start": [{"deck": "default"}], "events": [dict(e, dt=1.0) for e in c09.kit_events()] + events}
    pool = r.choice(["default", "corpus", "corpus"])
    start = common.start_recipe(S("start"), pool, xform_rate=0.0)
    events, sw = common.gen_history(
        seed, n_events=n, families=FORMAT_FAMILIES, always=("text",) if r.random() < 0.5 else (),
        src_fault_rate=0.1, ckpt=0.03, reopen=0.04, restart=0.01, observe=0.03, jump=0.0, fork=0.0)
    common.rewritten_between_sessions(seed, events, hows=("optional_children", "charts:optional_children", "bool_words", "hover_links"), rate=0.4)
    return {"property": ID, "seed": seed, "tier": tier,
            "config": {"families": sw["families"], "max_slides": 8, "max_shapes": 30},
            "start": [start], "events": events}


def make_oracles(trace):
    xsd.preload()
    return [XsdOracle()]


def nontrivial(trace, res):
    changed = sum(1 for e, o in zip(trace["events"], res["outcomes"])
                  if o == "ok" and e["op"] not in ("checkpoint", "observe", "clock_jump", "restart"))
    return changed >= 3 and res["stats"].get("c03_validations", 0) >= 5


def pinned_traces(tier):
    from .pinned import c03 as p
    return p.traces()
