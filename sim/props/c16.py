"""C16 - recoverable irregular packages open intact; non-packages are refused cleanly.

Faults in STORED state: every documented irregularity injected at every applicable location of
every corpus deck (singles enumerated, pairs sampled), three storage forms; fault-aware reference =
the independent OPC reader applied to the faulted bytes."""
from __future__ import annotations

import gzip
import hashlib
import io
import os
import random
import shutil
import zipfile

from lxml import etree

from .. import pkgxform, refpkg, seams
from ..disk import FaultCounters, SimDisk, SimSink, SimSource
from ..engine import DECKS, Violation, jdump, sha
from ..rng import Streams, derive
from . import common

ID = "C16"
LEVEL = "fault_enumeration"
EXHAUSTIVE = {"quick": False, "thorough": True}
RULE = ("fault locations are enumerated per corpus deck from the stored package: dangling target per relationship, "
        "deleted target member per part, deleted .rels item per part, case-flipped Default/Override per entry, unknown "
        "content type per part, extra unreferenced members, slide parts renamed per permutation class, removed core "
        "properties, truncation at every zip structural boundary, non-zip byte strings, wrong main content type, "
        "missing mandatory members; each single fault x storage form {stream, path, directory}; thorough = ALL singles "
        "(complete enumeration) + seeded pairs; quick = seeded stratified slice of the singles + pinned cases + seeded "
        "pairs; non-trivial = fault actually changed the stored bytes and the case was judged (opened and compared, or "
        "refusal class checked); distinct = distinct (deck, fault list, form)")
ASSUMPTIONS = [
    "'still reachable' = reachable from /_rels/.rels through internal relationships whose target member exists, as "
    "computed by the independent reader on the faulted bytes; content types resolve case-insensitively",
    "only the irregularities the statement lists are injected (no bit flips inside compressed members: zip CRC errors "
    "are not among the promised exception classes)",
    "a part that is reachable but has no resolvable content type is not an injected irregularity",
    "XML-equivalence = equal C14N after dropping whitespace-only text nodes",
]
CLAUSES = {
    "open": "Opening succeeds ... for packages with the documented irregularities",
    "preserve": "and preserves everything still reachable",
    "refuse": "A file that is not a package, or whose main part is not a presentation, is refused with a specific "
              "exception (PackageNotFoundError for a path, BadZipFile for a stream, KeyError for a missing mandatory "
              "member, ValueError for a non-presentation main part) and not with an arbitrary internal error",
    "save": "(C02 closure on the re-saved irregular package, except references already dangling in the input)",
}

class _Done(Exception):
    """early, successful end of a case"""


_deck_cache: dict[str, bytes] = {}


def deck_bytes(name: str) -> bytes:
    b = _deck_cache.get(name)
    if b is None:
        with open(os.path.join(DECKS, name), "rb") as f:
            b = _deck_cache[name] = f.read()
    return b


# ---- fault catalogue -------------------------------------------------------------------------------------

def enumerate_faults(data: bytes) -> list[dict]:
    """All single-fault locations of a stored package, in a stable order."""
    pkg = refpkg.RefPackage.from_bytes(data)
    out = []
    for src in ["/"] + pkg.reachable:
        for rel in pkg.rels_of(src) or []:
            if rel.mode != "External":
                out.append({"fault": "dangling_rel", "source": src, "rid": rel.rid})
    for n in pkg.reachable:
        out.append({"fault": "delete_member", "part": n})
        if refpkg.rels_name_for(n) in pkg.members:
            out.append({"fault": "drop_rels_item", "part": n})
        out.append({"fault": "unknown_ctype", "part": n})
        if n != "/ppt/presentation.xml":
            # the PART NAME differs in case from its content-type declaration (the declaration keeps the old spelling)
            out.append({"fault": "case_flip_partname", "part": n, "mode": "ext-upper"})
            out.append({"fault": "case_flip_partname", "part": n, "mode": "swap"})
    ct = refpkg.parse(pkg.members["/[Content_Types].xml"])
    k = 0
    for el in ct:
        if isinstance(el.tag, str):
            for mode in ("upper", "swap"):
                out.append({"fault": "case_flip_ct", "entry": k, "mode": mode})
            k += 1
    for variant in range(4):
        out.append({"fault": "extra_member", "variant": variant})
    for mode in ("reverse", "rotate", "gaps", "shuffle", "lastfits", "firstbig", "midnext", "midnext2"):
        out.append({"fault": "rename_slides", "mode": mode, "seed": 3})
    for v in range(3):
        out.append({"fault": "path_arg", "variant": v})
    for k_ in range(min(4, sum(1 for n in pkg.reachable if n.startswith("/ppt/slides/slide")))):
        # a slide no longer listed in p:sldIdLst whose relationship and part stay behind: the listed slides' names are non-contiguous
        out.append({"fault": "unlist_slide", "k": k_})
    out.append({"fault": "remove_core_props", "how": "member"})
    out.append({"fault": "remove_core_props", "how": "member+rel"})
    for b in zip_boundaries(data):
        out.append({"fault": "truncate", "at": b})
    for v in range(6):
        out.append({"fault": "non_zip", "variant": v})
    for v in range(3):
        out.append({"fault": "wrong_main_ctype", "variant": v})
    for m in ("[Content_Types].xml", "_rels/.rels", "main"):
        out.append({"fault": "missing_mandatory", "member": m})
    return out


def zip_boundaries(data: bytes) -> list[int]:
    z = zipfile.ZipFile(io.BytesIO(data))
    offs = {0, 1, 4, len(data) - 1, len(data) - 22, len(data) // 2}
    for i in z.infolist():
        offs.add(i.header_offset)
        offs.add(i.header_offset + 30)
    offs.add(z.start_dir)
    offs.add(z.start_dir + 46)
    return sorted(o for o in offs if 0 <= o < len(data))


def _ct_edit(members, fn):
    out = []
    for n, b in members:
        if n == "[Content_Types].xml":
            root = refpkg.parse(b)
            fn(root)
            b = etree.tostring(root, xml_declaration=True, encoding="UTF-8", standalone=True)
        out.append((n, b))
    return out


def _rels_edit(members, source, fn):
    name = refpkg.rels_name_for(source)[1:]
    out = []
    for n, b in members:
        if n == name:
            root = refpkg.parse(b)
            fn(root)
            b = etree.tostring(root, xml_declaration=True, encoding="UTF-8", standalone=True)
        out.append((n, b))
    return out


def apply_fault(data: bytes, x: dict) -> bytes:
    """Apply one stored-state fault. If its location no longer exists the bytes are returned unchanged."""
    f = x["fault"]
    if f == "path_arg":
        return data
    if f == "truncate":
        return data[: x["at"]]
    if f == "non_zip":
        v = x["variant"]
        r = random.Random(v)
        return [b"", b"PK", r.randbytes(64), b"\x89PNG\r\n\x1a\n" + r.randbytes(100), gzip.compress(data[:200], mtime=0),
                b"<?xml version='1.0'?><p:presentation/>"][v]
    if f == "unlist_slide":
        try:
            return pkgxform.unlist_slide(data, x.get("k", 0))
        except Exception:  # noqa: BLE001
            return data
    if f == "rename_slides":
        try:
            return pkgxform.rename_slides(data, x["mode"], x.get("seed", 0))
        except zipfile.BadZipFile:
            return data
    try:
        members = pkgxform.read_members(data)
    except zipfile.BadZipFile:
        return data  # an earlier byte-level fault already destroyed the container
    if f == "dangling_rel":
        def fn(root):
            for el in root:
                if isinstance(el.tag, str) and el.get("Id") == x["rid"] and el.get("TargetMode") != "External":
                    t = el.get("Target")
                    el.set("Target", t.rpartition("/")[0] + ("/" if "/" in t else "") + "NULL")
        members = _rels_edit(members, x["source"], fn)
    elif f == "delete_member":
        members = [(n, b) for n, b in members if n != x["part"][1:]]
    elif f == "drop_rels_item":
        members = [(n, b) for n, b in members if n != refpkg.rels_name_for(x["part"])[1:]]
    elif f == "unknown_ctype":
        part = x["part"]

        def fn(root):
            hit = False
            for el in root:
                if isinstance(el.tag, str) and el.get("PartName", "").lower() == part.lower():
                    el.set("ContentType", "application/x-unknown-" + el.get("ContentType", "").rpartition(".")[2])
                    hit = True
            if not hit:
                o = etree.SubElement(root, "{%s}Override" % refpkg.NS_CT)
                o.set("PartName", part)
                o.set("ContentType", "application/x-unknown")
        members = _ct_edit(members, fn)
    elif f == "case_flip_partname":
        part = x["part"]
        if ("/" + "\n".join(n for n, _ in members)).find(part[1:]) < 0:
            return data
        d_, _, base_ = part.rpartition("/")
        stem, dot, ext = base_.rpartition(".")
        new_name = (d_ + "/" + (stem + dot + ext.upper() if dot else base_.upper())) if x["mode"] == "ext-upper" else d_ + "/" + base_.swapcase()
        if new_name == part or any(("/" + n).lower() == new_name.lower() and "/" + n != part for n, _ in members):
            return data
        ct = dict(members).get("[Content_Types].xml")
        try:
            data2 = pkgxform.rename_parts(data, {part: new_name})
        except Exception:  # noqa: BLE001
            return data
        members = [(n, ct if n == "[Content_Types].xml" else b) for n, b in pkgxform.read_members(data2)]
    elif f == "case_flip_ct":
        def fn(root):
            els = [el for el in root if isinstance(el.tag, str)]
            if x["entry"] < len(els):
                el = els[x["entry"]]
                attr = "PartName" if el.get("PartName") is not None else "Extension"
                v = el.get(attr)
                el.set(attr, v.upper() if x["mode"] == "upper" else v.swapcase())
        members = _ct_edit(members, fn)
    elif f == "extra_member":
        v = x["variant"]
        if v == 0:
            members.append(("ppt/media/unreferenced.bin", b"\x00\x01extra"))
        elif v == 1:
            members.append(("customXml/item99.xml", b"<x/>"))
            members.append(("customXml/_rels/item99.xml.rels",
                            b'<Relationships xmlns="%s"/>' % refpkg.NS_REL.encode()))
        elif v == 2:
            members.append(("ppt/slides/slide999.xml", b"<not-a-slide/>"))
        else:
            members.insert(0, ("mimetype", b"application/vnd.openxmlformats"))
            members.append(("META-INF/garbage", random.Random(1).randbytes(50)))
    elif f == "remove_core_props":
        pkg = refpkg.RefPackage.from_bytes(data)
        cores = [r for r in pkg.rels_of("/") or [] if r.type.endswith("/core-properties")]
        for r in cores:
            members = [(n, b) for n, b in members if n != r.target[1:]]
            if x["how"] == "member+rel":
                def fn(root, rid=r.rid):
                    for el in list(root):
                        if isinstance(el.tag, str) and el.get("Id") == rid:
                            root.remove(el)
                members = _rels_edit(members, "/", fn)
    elif f == "wrong_main_ctype":
        pkg = refpkg.RefPackage.from_bytes(data)
        mp = pkg.main_part()
        new = ["application/vnd.openxmlformats-officedocument.wordprocessingml.document.main+xml",
               "application/vnd.openxmlformats-officedocument.spreadsheetml.sheet.main+xml", "application/xml"][x["variant"]]
        if mp:
            def fn(root):
                hit = False
                for el in root:
                    if isinstance(el.tag, str) and el.get("PartName", "").lower() == mp.lower():
                        el.set("ContentType", new)
                        hit = True
                if not hit:
                    o = etree.SubElement(root, "{%s}Override" % refpkg.NS_CT)
                    o.set("PartName", mp)
                    o.set("ContentType", new)
            members = _ct_edit(members, fn)
    elif f == "missing_mandatory":
        m = x["member"]
        if m == "main":
            mp = refpkg.RefPackage.from_bytes(data).main_part()
            m = mp[1:] if mp else "ppt/presentation.xml"
        members = [(n, b) for n, b in members if n != m]
    else:
        raise ValueError("unknown fault %r" % f)
    return pkgxform.write_members(members)


# ---- expectation from the faulted bytes (independent reader) ---------------------------------------------------

def SimDisk_scratch():
    from ..disk import scratch_dir
    return scratch_dir()


def expectation(data: bytes):
    """-> ("refuse", cls_for_path, cls_for_stream, why) | ("open", RefPackage)"""
    try:
        z = zipfile.ZipFile(io.BytesIO(data))
        z.namelist()
    except Exception:  # noqa: BLE001
        return ("refuse", "PackageNotFoundError", "BadZipFile", "not-a-zip")
    try:
        pkg = refpkg.RefPackage.from_bytes(data)
    except Exception:  # noqa: BLE001
        return ("refuse", "BadZipFile", "BadZipFile", "unreadable-zip")
    if "/[Content_Types].xml" not in pkg.members:
        return ("refuse", "KeyError", "KeyError", "no-content-types")
    mp = pkg.main_part()
    if mp is None or mp not in pkg.members:
        return ("refuse", "KeyError", "KeyError", "no-main-part")
    if pkg.content_type(mp) not in refpkg.PRESENTATION_MAIN_TYPES:
        return ("refuse", "ValueError", "ValueError", "main-not-presentation")
    return ("open", pkg)


def _slide_ids_in_order(ref: refpkg.RefPackage):
    """Slide ids in presentation order according to the independent reader (None if not determinable); slides whose
    relationship dangles are not part of the presentation any more."""
    mp = ref.main_part()
    try:
        root = refpkg.parse(ref.members[mp])
    except Exception:  # noqa: BLE001
        return None
    lst = root.find("{http://schemas.openxmlformats.org/presentationml/2006/main}sldIdLst")
    if lst is None:
        return []
    rels = {r.rid: r for r in ref.rels_of(mp) or []}
    out = []
    targets = []
    for el in lst:
        rid = el.get("{%s}id" % refpkg.NS_R)
        r = rels.get(rid)
        if r is None or r.target not in ref.members:
            return None  # a slide entry whose part is gone: what .slides does with it is not specified
        if ref.content_type(r.target) != "application/vnd.openxmlformats-officedocument.presentationml.slide+xml":
            return None  # a slide part declared with an unknown content type loads as a generic part
        out.append(int(el.get("id")))
        targets.append(r.target)
    if len(set(targets)) != len(targets):
        return None  # two slide entries leading to one part (a by-product of combined faults): not a listed irregularity
    return out


def compare_loaded(ref: refpkg.RefPackage, prs, report):
    pkg = prs.part.package
    loaded = {}
    for part in pkg.iter_parts():
        loaded[str(part.partname)] = part
    want, got = set(ref.reachable), set(loaded)
    if want != got:
        miss, extra = sorted(want - got), sorted(got - want)
        report("preserve|parts-%s|%s" % ("missing" if miss else "extra", refpkg.ext_of((miss or extra)[0]).lower()),
               "missing=%s extra=%s" % (miss[:5], extra[:5]), CLAUSES["preserve"])
        return
    for n in sorted(want):
        part = loaded[n]
        ct = ref.content_type(n)
        if part.content_type != ct:
            report("preserve|ctype|%s->%s" % (ct, part.content_type), n, CLAUSES["preserve"])
        a, b = ref.members[n], part.blob
        if a != b:
            ok = False
            if refpkg.is_xml_type(ct, n) or hasattr(part, "_element"):
                try:
                    ok = refpkg.c14n(a) == refpkg.c14n(b)
                except Exception:  # noqa: BLE001
                    ok = False
            if not ok:
                report("preserve|payload|%s" % refpkg.ext_of(n).lower(), n, CLAUSES["preserve"])
    for src in ["/"] + sorted(want):
        rels = pkg._rels if src == "/" else loaded[src].rels
        got_r = sorted((r.rId, r.reltype, "External" if r.is_external else "Internal",
                        r.target_ref if r.is_external else str(r.target_part.partname)) for r in rels.values())
        want_r = ref.live_rels(src)
        if got_r != want_r:
            report("preserve|rels|%s" % ("count" if len(got_r) != len(want_r) else "content"),
                   "source=%s\nwant=%s\n got=%s" % (src, want_r[:6], got_r[:6]), CLAUSES["preserve"])


def execute(trace: dict, known, collect_log=True) -> dict:
    from .. import findings
    import pptx
    seams.CLOCK.reset()
    log = []
    res = {"violation": None, "error": None, "known_hits": {}, "faults": FaultCounters(), "probes": FaultCounters(),
           "stats": FaultCounters(), "outcomes": [], "states": []}

    def report(sig, detail="", clause=""):
        k = findings.match_known(known, ID, sig)
        if k is not None:
            res["known_hits"][k] = res["known_hits"].get(k, 0) + 1
            return
        raise Violation(sig, detail, clause)

    try:
        if "torn" in trace:
            data = bytes.fromhex(trace["torn"])
            orig = data
        else:
            orig = deck_bytes(trace["deck"])
            for x in trace.get("pre", []):
                # the same deck as another producer spells it (relationship ids, explicit TargetMode, part numbering): still a regular package
                orig = pkgxform.apply(orig, x)
                res["probes"].hit("respelled_" + x["kind"])
            data = orig
            # structural faults first, byte-level faults (truncate / non-zip) last
            for x in sorted(trace["faults"], key=lambda y: y["fault"] in ("truncate", "non_zip")):
                new = apply_fault(data, x)
                if new != data:
                    res["faults"].hit("stored_" + x["fault"])
                else:
                    res["stats"].hit("fault_noop")
                data = new
        form = trace.get("form", "stream")
        pa = [x for x in trace.get("faults", []) if x["fault"] == "path_arg"]
        if pa:
            # a path that names no package at all: the empty string, a file that is not there, a directory that is not there
            v = pa[0]["variant"]
            arg = ["", os.path.join(SimDisk_scratch(), "no-such-file-%d.pptx" % os.getpid()), os.path.join(SimDisk_scratch(), "no-such-dir-%d" % os.getpid(), "deck.pptx")][v]
            res["faults"].hit("stored_path_arg")
            try:
                pptx.Presentation(arg)
                got = "opened"
            except Exception as e:  # noqa: BLE001
                got = type(e).__name__
            res["outcomes"].append("refused:%s" % got)
            res["probes"].hit("refuse_path-names-nothing_%d" % v)
            log.append({"path_arg": v, "got": got})
            if got != "PackageNotFoundError":
                report("refuse|path-names-nothing|path|expected=PackageNotFoundError|got=%s" % got, "argument %r" % (["''", "missing file", "missing directory"][v]), CLAUSES["refuse"])
            raise _Done()
        exp = expectation(data)
        log.append({"sha": sha(data)[:12], "exp": exp[0], "why": exp[3] if exp[0] == "refuse" else ""})
        disk = SimDisk()
        cleanup = None
        if form == "stream":
            arg = SimSource(data, pos=trace.get("pos", 0))
        elif form == "path":
            disk.put("in", data)
            arg = disk.materialize("in", ".pptx")
            cleanup = lambda: os.unlink(arg)  # noqa: E731
        else:
            if exp[0] == "refuse" and exp[3] in ("not-a-zip", "unreadable-zip"):
                # directory form of a non-zip does not exist; use the path form
                disk.put("in", data)
                arg = disk.materialize("in", ".pptx")
                cleanup = lambda: os.unlink(arg)  # noqa: E731
                form = "path"
            else:
                disk.put("in", data)
                arg = disk.materialize_dir("in", link=(form == "dirlink"))
                cleanup = lambda: (shutil.rmtree(arg, ignore_errors=True), shutil.rmtree(arg + ".linked", ignore_errors=True))  # noqa: E731
        try:
            try:
                # liveness: refusing or opening takes a bounded number of steps (seams.step_budget; deterministic, not wall-clock)
                with seams.step_budget(seams.budget_for(data)):
                    prs = pptx.Presentation(arg)
                raised = None
            except (Exception, seams.StepBudgetExceeded) as e:  # noqa: BLE001
                prs = None
                raised = e
                import traceback
                tb = traceback.format_exc()[-1500:]
        finally:
            if cleanup:
                cleanup()
        if exp[0] == "refuse":
            want = exp[1] if form in ("path",) else exp[2]
            if form in ("dir", "dirlink"):
                want = exp[1]
            got = type(raised).__name__ if raised is not None else "opened"
            res["outcomes"].append("refused:%s" % got)
            res["probes"].hit("refuse_%s_%s" % (exp[3], form))
            if got != want:
                report("refuse|%s|%s|expected=%s|got=%s" % (exp[3], form, want, got),
                       tb if raised is not None else "opened without exception", CLAUSES["refuse"])
        else:
            ref = exp[1]
            if raised is not None:
                report("open|raises|%s|%s" % (type(raised).__name__, _fault_class(trace)), tb, CLAUSES["open"])
            else:
                res["outcomes"].append("opened")
                res["probes"].hit("opened_%s" % form)
                if ref.dangling:
                    res["probes"].hit("opened_with_dangling_rels")
                compare_loaded(ref, prs, report)
                # re-save: closure rules except references already unresolved in the irregular input
                s = SimSink("seekable")
                try:
                    prs.save(s)
                except Exception as e:  # noqa: BLE001
                    import traceback
                    report("save|raises|%s" % type(e).__name__, traceback.format_exc()[-1500:], CLAUSES["save"])
                out = refpkg.RefPackage.from_bytes(s.image())
                tol_av = {(a, v) for (_n, a, v) in refpkg.unresolved_refs(ref, include_dangling=True)}
                tol = {(n, a, v) for n in out.members for (a, v) in tol_av}
                for rule, detail in refpkg.closure_problems(out, tol):
                    report("save|closure|%s" % rule, detail, CLAUSES["save"])
                if set(out.part_names()) != set(ref.reachable):
                    report("save|parts-differ", "%s" % sorted(set(out.part_names()) ^ set(ref.reachable))[:6], CLAUSES["preserve"])
                # second stage: the irregular deck keeps working after it was opened - first access of the slide
                # collection (which renames out-of-order slide parts), then another save, must still give a closed
                # package whose slides re-open in presentation order
                want_ids = _slide_ids_in_order(ref)
                if want_ids is None:
                    # a slide entry whose part is gone (dangling relationship): what .slides does is not specified
                    res["stats"].hit("c16_compared")
                    res["stats"].hit("c16_second_stage_skipped_dangling_slide")
                    raise _Done()
                try:
                    got_ids = [s_.slide_id for s_ in prs.slides]
                except Exception as e:  # noqa: BLE001
                    import traceback
                    report("preserve|slides-collection-raises|%s" % type(e).__name__, traceback.format_exc()[-1200:], CLAUSES["preserve"])
                    raise _Done()
                if got_ids != want_ids:
                    report("preserve|slide-order-after-open", "want=%r got=%r" % (want_ids, got_ids), CLAUSES["preserve"])
                s2 = SimSink("seekable")
                try:
                    prs.save(s2)
                except Exception as e:  # noqa: BLE001
                    import traceback
                    report("save|second-save-raises|%s" % type(e).__name__, traceback.format_exc()[-1500:], CLAUSES["save"])
                out2 = refpkg.RefPackage.from_bytes(s2.image())
                tol2 = {(n, a, v) for n in out2.members for (a, v) in tol_av}
                for rule, detail in refpkg.closure_problems(out2, tol2):
                    report("save|closure-after-slides-access|%s" % rule, detail, CLAUSES["save"])
                try:
                    prs3 = pptx.Presentation(SimSource(s2.image()))
                    ids3 = [s_.slide_id for s_ in prs3.slides]
                except Exception as e:  # noqa: BLE001
                    import traceback
                    report("save|re-open-after-second-save-raises|%s" % type(e).__name__, traceback.format_exc()[-1500:], CLAUSES["save"])
                    ids3 = got_ids
                if ids3 != got_ids:
                    report("preserve|slide-order-after-second-save", "in memory=%r re-opened=%r" % (got_ids, ids3), CLAUSES["preserve"])
                # third stage, only for irregularities that leave every part present, typed and related (renamed slide parts, case
                # differences, extra members, no core properties): the deck takes a new slide like any other
                if all(x["fault"] in ("rename_slides", "case_flip_ct", "extra_member", "remove_core_props", "unlist_slide", "case_flip_partname") for x in trace.get("faults", [])) and not ref.dangling:
                    try:
                        layouts = list(prs.slide_layouts)
                    except Exception:  # noqa: BLE001
                        layouts = []
                    if layouts:
                        try:
                            new_sl = prs.slides.add_slide(layouts[0])
                            s3 = SimSink("seekable")
                            prs.save(s3)
                        except Exception as e:  # noqa: BLE001
                            import traceback
                            report("preserve|add-slide-after-open-raises|%s" % type(e).__name__, traceback.format_exc()[-1500:], CLAUSES["preserve"])
                        out3 = refpkg.RefPackage.from_bytes(s3.image())
                        for rule, detail in refpkg.closure_problems(out3, {(n, a, v) for n in out3.members for (a, v) in tol_av}):
                            report("save|closure-after-add-slide|%s" % rule, detail, CLAUSES["save"])
                        try:
                            ids4 = [s_.slide_id for s_ in pptx.Presentation(SimSource(s3.image())).slides]
                        except Exception as e:  # noqa: BLE001
                            import traceback
                            report("save|re-open-after-add-slide-raises|%s" % type(e).__name__, traceback.format_exc()[-1500:], CLAUSES["save"])
                            ids4 = got_ids + [new_sl.slide_id]
                        if ids4 != got_ids + [new_sl.slide_id]:
                            report("preserve|slides-after-add-slide", "want=%r got=%r" % (got_ids + [new_sl.slide_id], ids4), CLAUSES["preserve"])
                        res["stats"].hit("c16_third_stage_add_slide")
                res["stats"].hit("c16_compared")
        res["states"] = [jdump([trace.get("deck"), [x["fault"] for x in trace.get("faults", [])], form, exp[0]])]
    except _Done:
        res["states"] = [jdump([trace.get("deck"), [x["fault"] for x in trace.get("faults", [])], trace.get("form"), "open"])]
    except Violation as v:
        res["violation"] = {"sig": v.sig, "detail": v.detail[:4000], "clause": v.clause, "event_index": 0}
        log.append({"violation": v.sig})
    except Exception:  # noqa: BLE001
        import traceback
        res["error"] = "harness exception:\n" + traceback.format_exc()[-3000:]
    res["digest"] = hashlib.sha256(jdump([log, trace.get("deck"), trace.get("faults"), trace.get("form"), trace.get("pre")]).encode()).hexdigest()
    for k in ("faults", "probes", "stats"):
        res[k] = dict(res[k])
    res["n_events"] = 1 + len(trace.get("faults", []))
    res["sim_seconds"] = 0.0
    res["clock_jumps"] = 0
    if collect_log:
        res["log"] = log
    return res


def _fault_class(trace):
    return "+".join(x["fault"] for x in trace.get("faults", [])) or "none"


# ---- enumeration plan -------------------------------------------------------------------------------------------------

_all_singles = None


def all_singles():
    """[(deck, fault)] over the whole corpus, stable order."""
    global _all_singles
    if _all_singles is None:
        out = []
        for d in common.corpus_decks():
            for x in enumerate_faults(deck_bytes(d)):
                out.append((d, x))
        _all_singles = out
    return _all_singles


def plan(tier):
    n = len(all_singles())
    if tier == "quick":
        return {"runs": 5000, "budget_s": 70, "chunk": 100, "singles_total": n}
    # thorough: every single x 3 forms, then pairs
    return {"runs": n * 3 + 40000, "budget_s": 800, "chunk": 300, "singles_total": n}


def gen_trace(seed: int, tier: str) -> dict:
    """quick: seeded draw (70% single, 30% pair).  thorough uses gen_indexed via `index_trace`."""
    singles = all_singles()
    S = Streams(seed)
    r = S("pick")
    form = r.choice(["stream", "path", "dir", "dirlink"])
    deck, x = singles[r.randrange(len(singles))]
    faults = [x]
    if r.random() < 0.3:
        same = [y for (d, y) in singles if d == deck]
        faults.append(same[r.randrange(len(same))])
    t = {"property": ID, "seed": seed, "tier": tier, "deck": deck, "faults": faults, "form": form, "events": []}
    if form == "stream":
        t["pos"] = r.choice([0, 0, 11, 10 ** 8])
    rp = S("respell")
    k = rp.random()
    name_free = all(y["fault"] in ("rename_slides", "extra_member", "remove_core_props", "truncate", "non_zip", "wrong_main_ctype") for y in faults)
    if k < 0.25:
        t["pre"] = [rp.choice([{"kind": "explicit_internal", "rate": rp.choice([1.0, 0.5]), "seed": rp.randint(0, 99)},
                               {"kind": "respell_package_xml", "style": rp.choice(["mixed", "prefixed", "multiline", "utf16"]), "seed": rp.randint(0, 99)}])]
    elif k < 0.40 and name_free:
        t["pre"] = [rp.choice([{"kind": "respell_rids", "style": "mixed", "seed": rp.randint(0, 99)},
                               {"kind": "respell_targets", "style": rp.choice(["mixed", "abs", "dot", "updown"]), "seed": rp.randint(0, 99)},
                               {"kind": "renumber", "family": rp.choice(["charts", "themes", "notes", "media", "embeddings", "layouts", "masters"]),
                                "mode": rp.choice(["odd", "shift", "sparse"]), "seed": rp.randint(0, 99)}])]
    return t


def index_trace(idx: int, tier: str, verif_seed: int) -> dict | None:
    """thorough tier: indices [0, 3n) enumerate every single fault x form; beyond that seeded pairs."""
    singles = all_singles()
    n = len(singles)
    if tier != "thorough" or idx >= 3 * n:
        return None
    deck, x = singles[idx // 3]
    form = ["stream", "path", "dir"][idx % 3]
    t = {"property": ID, "seed": "single-%d" % idx, "tier": tier, "deck": deck, "faults": [x], "form": form, "events": []}
    if (idx // 3) % 4 == 1:
        t["pre"] = [{"kind": "explicit_internal", "rate": 0.5, "seed": idx}]
    return t


def make_oracles(trace):
    return []


def nontrivial(trace, res):
    return (sum(v for k, v in res["faults"].items()) >= 1 or "torn" in trace) and not res["error"]


def pinned_traces(tier):
    out = []
    for deck in ("default.pptx", "t-minimal.pptx", "t-no-core-props.pptx", "t-missing_rels_item.pptx", "f-ext-rels.pptx"):
        seen = set()
        for x in enumerate_faults(deck_bytes(deck)):
            if x["fault"] in seen and x["fault"] not in ("non_zip", "missing_mandatory", "wrong_main_ctype", "extra_member", "rename_slides", "unlist_slide", "path_arg"):
                continue
            seen.add(x["fault"])
            for form in ("stream", "path", "dir"):
                out.append({"property": ID, "seed": "pin-%s-%s-%s" % (deck, x["fault"], form), "tier": "pinned", "deck": deck,
                            "faults": [x], "form": form, "events": []})
    # every corpus deck unfaulted in directory form
    for d in common.corpus_decks():
        out.append({"property": ID, "seed": "dirform-%s" % d, "tier": "pinned", "deck": d, "faults": [], "form": "dir", "events": []})
        out.append({"property": ID, "seed": "dirlinkform-%s" % d, "tier": "pinned", "deck": d, "faults": [], "form": "dirlink", "events": []})
        # ... and as another producer spells it: explicit TargetMode="Internal", its own relationship ids, its own part numbering
        out.append({"property": ID, "seed": "explicit-internal-%s" % d, "tier": "pinned", "deck": d, "faults": [], "form": "stream", "events": [],
                    "pre": [{"kind": "explicit_internal", "rate": 1.0, "seed": 0}]})
        out.append({"property": ID, "seed": "package-xml-respelled-%s" % d, "tier": "pinned", "deck": d, "faults": [], "form": "stream", "events": [],
                    "pre": [{"kind": "respell_package_xml", "style": ("prefixed", "multiline", "utf16")[len(d) % 3], "seed": 0}]})
        out.append({"property": ID, "seed": "respelled-%s" % d, "tier": "pinned", "deck": d, "faults": [{"fault": "rename_slides", "mode": "lastfits", "seed": 3}], "form": "path", "events": [],
                    "pre": [{"kind": "respell_rids", "style": "mixed", "seed": 1}, {"kind": "renumber", "family": "media", "mode": "odd", "seed": 1},
                            {"kind": "renumber", "family": "charts", "mode": "shift", "seed": 1}]})
    return out


def shrink_candidates(trace):
    out = []
    fs = trace.get("faults", [])
    if len(fs) > 1:
        for i in range(len(fs)):
            out.append(dict(trace, faults=fs[:i] + fs[i + 1:]))
    if trace.get("form") != "stream" or trace.get("pos"):
        out.append(dict(trace, form="stream", pos=0))
    pre = trace.get("pre", [])
    for i in range(len(pre)):
        out.append(dict(trace, pre=pre[:i] + pre[i + 1:]))
    return out
