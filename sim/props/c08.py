"""C08 - the chart's cached values and its embedded workbook agree cell for cell.

Runs the chart histories of c07.py with the workbook oracle (independent .xlsx reader) switched on and series counts chosen to
cross the A..Z / AA / ZZ->AAA column boundaries and XY/bubble series of unequal lengths."""
from __future__ import annotations

from .. import gens
from ..rng import Streams
from . import c07

ID = "C08"
LEVEL = "exploration"
RULE = ("the chart histories of C07 (add_chart -> replace_data* -> restart -> replace_data*, all writable chart types, corpus "
        "charts) with series counts biased to 24-30 (column Z/AA boundary) and, in thorough, 700-720 (ZZ/AAA), XY/bubble series "
        "of unequal lengths incl. 0; after every add/replace and after every restart an independent .xlsx reader compares, for "
        "every c:f in the chart part, the referenced range size with ptCount and every cached c:pt with the cell it is indexed "
        "to; non-trivial = >=2 workbooks verified with >=10 points compared; distinct = distinct event-log digest")
ASSUMPTIONS = [
    "XlsxWriter is real and trusted to write what it is told; only python-pptx's layout arithmetic and references are judged",
    "numbers are compared after rounding both sides to 15 significant digits (XlsxWriter writes %.16G, the cache carries repr)",
    "c:lvl elements of a multi-level category cache list the innermost (rightmost column) level first (SpreadsheetML convention)",
    "a series without points is referenced by the inverted one-past range (e.g. $B$2:$B$1): accepted as the empty range",
]
CLAUSES = c07.CLAUSES


def plan(tier):
    if tier == "quick":
        return {"runs": 1000, "budget_s": 75, "chunk": 8}
    return {"runs": 25000, "budget_s": 780, "chunk": 12}


def gen_trace(seed: int, tier: str) -> dict:
    t = c07.gen_trace(seed, tier, which=("c08",))
    S = Streams(seed)
    rb = S("c08-boundaries")
    for e in t["events"]:
        if e["op"] == "c07.add_chart" and rb.random() < 0.35:
            kind = gens.chart_kind(e["type"])
            ns = rb.choice([24, 25, 26, 27, 30]) if tier == "quick" or rb.random() < 0.8 else rb.choice([701, 702, 703, 705])
            e["data"] = gens.gen_chart_data(rb, kind, max_series=ns, max_points=rb.choice([1, 2, 3]), min_series=ns)
        if e["op"] == "c07.replace" and rb.random() < 0.3:
            ns = rb.choice([0, 1, 25, 26, 27, 28])
            e["datas"] = {k: gens.gen_chart_data(rb, k, max_series=ns, max_points=rb.choice([1, 2, 5]), min_series=ns) for k in ("cat", "xy", "bubble")}
    return t


def make_oracles(trace):
    return c07.make_oracles(trace)


def nontrivial(trace, res):
    st = res["stats"]
    return st.get("c08_workbooks_verified", 0) >= 2 and st.get("c08_points_compared", 0) >= 10


def pinned_traces(tier):
    return c07.pinned_traces(tier, which=("c08",))
