"""C02 - every saved file is a closed, self-consistent package, after any history."""
from __future__ import annotations

import random

from .. import refpkg, snapshot
from ..disk import SimSink, SimSource
from ..engine import Oracle, jdump
from ..rng import Streams
from . import common

ID = "C02"
LEVEL = "exploration"
RULE = ("seeded histories of public-API operations + scheduler events (checkpoint/restart/reopen/fork/"
        "observe/clock jump) with storage faults in save and in file-reading operations; one evaluation = "
        "one executed history; non-trivial = history with >=3 state-changing events that took effect and >=1 "
        "acknowledged checkpoint; distinct = distinct event-log digest")
ASSUMPTIONS = [
    "a save is acknowledged iff save() returned without raising; only acknowledged images are restart points",
    "input streams are seekable and honour read(n) fully (zipfile's contract)",
    "simulated clock stays within 1980..2107 (zip timestamp range)",
    "orphan parts/relationships left by a failed call are tolerated (statement: ids used in XML must exist)",
    "relationship-id references that were already unresolved in the start deck are not blamed on later ops",
    "what a failed save leaves on the medium is not judged",
]
CLAUSES = {
    "closure": "saving produces a zip whose member names are unique, every part has exactly one resolvable content "
               "type ..., every internal relationship targets a member that is present, every relationship id used in "
               "a part's XML exists in that part's relationship item, and the office-document relationship leads to "
               "the presentation part",
    "ctype": "every part has exactly one resolvable content type equal to the type it was created or loaded with",
    "reopen": "Re-opening that file with python-pptx succeeds",
    "snapshot": "... and shows the same slides, shapes, text, pictures and charts as the in-memory presentation did "
                "when it was saved",
    "restart": "(durability) re-opening the last acknowledged save shows what was saved then",
    "failed-save": "a failed save leaves the in-memory presentation unaffected: the next save is complete",
}


class ClosureOracle(Oracle):
    name = "c02"

    def __init__(self, deep=True):
        self.deep = deep

    def on_open(self, w, deck):
        if "c02_tol" not in deck.memo:
            try:
                pkg = refpkg.RefPackage.from_bytes(deck.start_image)
                deck.memo["c02_tol"] = {(a, v) for (_n, a, v) in refpkg.unresolved_refs(pkg)}
            except Exception:  # noqa: BLE001
                deck.memo["c02_tol"] = set()

    def before_event(self, w, ev):
        if ev["op"] == "checkpoint" and ev.get("fault") and ev["fault"].get("kind") != "crash":
            deck = w.deck(ev.get("deck", 0))
            if deck is not None and deck.alive:
                s = SimSink("seekable")
                deck.prs.save(s)
                deck.memo["c02_pre_fault"] = s.image()

    def on_failed_save(self, w, deck, ev, exc):
        pre = deck.memo.pop("c02_pre_fault", None)
        if pre is None:
            return
        s = SimSink("seekable")
        try:
            deck.prs.save(s)
        except Exception as e:  # noqa: BLE001
            w.report("failed-save|next-save-raises|%s" % type(e).__name__, repr(e), CLAUSES["failed-save"])
            return
        a = refpkg.RefPackage.from_bytes(pre)
        b = refpkg.RefPackage.from_bytes(s.image())
        if sorted(a.members) != sorted(b.members):
            w.report("failed-save|members-differ", "only before: %s only after: %s" % (
                sorted(set(a.members) - set(b.members))[:5], sorted(set(b.members) - set(a.members))[:5]),
                CLAUSES["failed-save"])
            return
        for n in a.members:
            if a.members[n] != b.members[n] and not n.endswith(".xlsx"):
                w.report("failed-save|member-bytes-differ|%s" % refpkg.ext_of(n), n, CLAUSES["failed-save"])
                return
        w.probes.hit("failed_save_left_live_state_intact")

    def on_checkpoint(self, w, deck, image, ev):
        deck.memo.pop("c02_pre_fault", None)
        try:
            pkg = refpkg.RefPackage.from_bytes(image)
        except Exception as e:  # noqa: BLE001
            w.report("closure|not-a-zip|%s" % type(e).__name__, repr(e), CLAUSES["closure"])
            return
        tol = deck.memo.get("c02_tol", set())
        tol3 = {(n, a, v) for n in pkg.members for (a, v) in tol} if tol else set()
        for rule, detail in refpkg.closure_problems(pkg, tol3):
            w.report("closure|%s|%s" % (rule, _detail_class(rule, detail)), detail, CLAUSES["closure"])
        # content type equals the live part's
        live = {}
        for part in deck.prs.part.package.iter_parts():
            live[str(part.partname)] = part.content_type
        for n in pkg.part_names():
            ct = pkg.content_type(n)
            if n in live and live[n] != ct:
                w.report("ctype|changed|ext=%s|live=%s|file=%s" % (refpkg.ext_of(n), live[n], ct), n, CLAUSES["ctype"])
        missing = sorted(set(live) - set(pkg.members))
        if missing:
            w.report("closure|live-part-not-written|%s" % refpkg.ext_of(missing[0]), str(missing[:5]), CLAUSES["closure"])
        # re-open and compare
        import pptx
        try:
            prs2 = pptx.Presentation(SimSource(image))
        except Exception as e:  # noqa: BLE001
            import traceback
            w.report("reopen|raises|%s" % type(e).__name__, traceback.format_exc()[-1500:], CLAUSES["reopen"])
            return
        deck.slides_accessed = True
        s_live = snapshot.snapshot(deck.prs, self.deep)
        s_re = snapshot.snapshot(prs2, self.deep)
        d = snapshot.diff(s_live, s_re)
        if d:
            w.report("snapshot|live-vs-reopened|%s" % snapshot.diff_class(d[0]),
                     "path=%s live=%r reopened=%r" % (d[0], _short(d[1]), _short(d[2])), CLAUSES["snapshot"])
        deck.memo["c02_snap"] = s_re
        w.state_digests.add(_abstract(s_re, pkg, deck))
        w.stats.hit("c02_checkpoints_checked")

    def on_restart(self, w, deck, ev):
        exp = deck.memo.get("c02_snap")
        if exp is None:
            return
        got = snapshot.snapshot(deck.prs, self.deep)
        d = snapshot.diff(exp, got)
        if d:
            w.report("snapshot|restart-vs-checkpoint|%s" % snapshot.diff_class(d[0]),
                     "path=%s at-checkpoint=%r after-restart=%r" % (d[0], _short(d[1]), _short(d[2])),
                     CLAUSES["restart"])
        w.stats.hit("c02_restarts_checked")


def _short(v):
    s = repr(v)
    return s if len(s) < 300 else s[:300] + "..."


def _detail_class(rule, detail):
    import re
    if rule in ("xml-rid-unresolved",):
        m = re.search(r"(r:\w+)=", detail)
        part = detail.split(" ")[0]
        return "%s|%s" % (re.sub(r"\d+", "N", part.rpartition("/")[2]), m.group(1) if m else "")
    if rule in ("dangling-rel", "no-ctype", "dup-member", "dup-rid"):
        return re.sub(r"\d+", "N", detail.split(" ")[0].rpartition("/")[2])
    return ""


def _abstract(snap, pkg, deck):
    kinds = []
    for s in snap["slides"]:
        kinds.append(",".join(sorted(sh["cls"] for sh in s["shapes"])))
    byext = {}
    for n in pkg.part_names():
        e = refpkg.ext_of(n)
        byext[e] = byext.get(e, 0) + 1
    return jdump([len(snap["slides"]), sorted(kinds), sorted(byext.items()), deck.slides_accessed])


# ---- generation -------------------------------------------------------------------------------------------------

def plan(tier):
    if tier == "quick":
        return {"runs": 480, "budget_s": 75, "chunk": 6}
    return {"runs": 12000, "budget_s": 780, "chunk": 10}


def gen_trace(seed: int, tier: str) -> dict:
    S = Streams(seed)
    r = S("config")
    thorough = tier == "thorough"
    arm = r.choice(["nofault", "nofault", "fault", "fault", "everyckpt"] if thorough else ["nofault", "fault", "fault"])
    n = r.randint(8, 30) if not thorough else r.randint(15, 80)
    if arm == "everyckpt":
        n = r.randint(6, 20)
    pool = r.choice(["default", "default", "corpus"])
    start = common.start_recipe(S("start"), pool, xform_rate=0.5)
    events, sw = common.gen_history(
        seed, n_events=n, fault_rate=0.35 if arm == "fault" else 0.0,
        src_fault_rate=0.3 if arm == "fault" else 0.0, every_event_ckpt=(arm == "everyckpt"),
        always=("slides",))
    # between two sessions another program rewrote the file: hover actions on the relationships of the click actions, booleans as words
    common.rewritten_between_sessions(seed, events, hows=("hover_links", "hover_links", "bool_words"), rate=0.4)
    return {"property": ID, "seed": seed, "tier": tier,
            "config": {"arm": arm, "families": sw["families"], "max_slides": 12, "max_shapes": 40},
            "start": [start], "events": events}


def make_oracles(trace):
    return [ClosureOracle(deep=True)]


def nontrivial(trace, res):
    changed = sum(1 for e, o in zip(trace["events"], res["outcomes"])
                  if o == "ok" and e["op"] not in ("checkpoint", "observe", "clock_jump", "restart"))
    return changed >= 3 and res["stats"].get("c02_checkpoints_checked", 0) >= 1


def pinned_traces(tier):
    from .pinned import c02 as p
    return p.traces()
