"""Directed histories pinned into C02's tiers (DESIGN.md section 3.x)."""


def T(name, start, events, config=None):
    return {"property": "C02", "seed": name, "tier": "pinned", "config": dict(config or {}, pinned=name),
            "start": start, "events": events}


def traces():
    out = []
    ck = {"op": "checkpoint", "sink": "seekable"}
    # stale target_ref: out-of-order deck: open -> save -> first .slides access -> save -> re-open
    for deck in ("f-sld-slides.pptx", "t-test_slides.pptx", "f-prs-add-slide.pptx"):
        for mode in ("reverse", "rotate", "gaps", "shuffle"):
            out.append(T("stale-target-ref-%s-%s" % (deck, mode),
                         [{"deck": deck, "xform": [{"kind": "rename_slides", "mode": mode, "seed": 1}]}],
                         [dict(ck, raw=True), {"op": "observe"}, ck, {"op": "restart"}]))
    return out
