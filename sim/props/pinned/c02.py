"""Directed histories pinned into C02's tiers (DESIGN.md section 3.x)."""


def T(name, start, events, config=None):
    return {"property": "C02", "seed": name, "tier": "pinned", "config": dict(config or {}, pinned=name),
            "start": start, "events": events}


def traces():
    out = []
    ck = {"op": "checkpoint", "sink": "seekable"}
    # stale target_ref: out-of-order deck: open -> save -> first .slides access -> save -> re-open
    for deck in ("f-sld-slides.pptx", "t-test_slides.pptx", "f-prs-add-slide.pptx"):
        for mode in ("reverse", "rotate", "gaps", "shuffle"):
            out.append(T("stale-target-ref-%s-%s" % (deck, mode),
                         [{"deck": deck, "xform": [{"kind": "rename_slides", "mode": mode, "seed": 1}]}],
                         [dict(ck, raw=True), {"op": "observe"}, ck, {"op": "restart"}]))
    box = {"x": 100000, "y": 100000, "cx": 2000000, "cy": 800000}
    # the same with relationships BETWEEN slide parts (jump-to-slide actions, same directory): made in one session, slide parts renamed between
    # the sessions, then save -> first .slides access -> save
    for mode in ("gaps", "reverse", "shuffle", "midnext", "lastfits"):
        evs = [{"op": "add_slide", "layout": 6}, {"op": "add_slide", "layout": 6}, {"op": "add_slide", "layout": 6}] + \
              [dict(box, op="add_shape", slide=k, type=1) for k in range(3)] + \
              [{"op": "click_target", "slide": k, "shape": 0, "target": (k + 2) % 3} for k in range(3)] + \
              [ck, {"op": "restart", "xform": [{"kind": "rename_slides", "mode": mode, "seed": 2}]}, dict(ck, raw=True), {"op": "observe"}, ck, {"op": "restart"}, {"op": "observe"}, ck]
        out.append(T("slide-jumps-then-renamed-slide-parts-%s" % mode, [{"deck": "default"}], evs))
    # drop_rel reference count: two runs + one shape share a URL; change one, save; clear all, save
    U = "http://example.com/"
    for kind in ("run", "click"):
        evs = [{"op": "add_slide", "layout": 6}, dict(box, op="add_textbox", slide=0, text="one\ntwo\nthree"), dict(box, op="add_shape", slide=0, type=1),
               dict(box, op="add_shape", slide=0, type=1)]
        if kind == "run":
            evs += [{"op": "run_hyperlink", "slide": 0, "shape": 0, "para": i, "run": 0, "addr": U} for i in range(3)]
            evs += [ck, {"op": "run_hyperlink", "slide": 0, "shape": 0, "para": 1, "run": 0, "addr": U + "b"}, ck, {"op": "restart"},
                    {"op": "run_hyperlink", "slide": 0, "shape": 0, "para": 0, "run": 0, "addr": None}, ck,
                    {"op": "run_hyperlink", "slide": 0, "shape": 0, "para": 2, "run": 0, "addr": None}, ck, {"op": "restart"}]
        else:
            evs += [{"op": "click_hyperlink", "slide": 0, "shape": i, "addr": U} for i in range(3)]
            evs += [ck, {"op": "click_hyperlink", "slide": 0, "shape": 1, "addr": U + "b"}, ck,
                    {"op": "click_hyperlink", "slide": 0, "shape": 0, "addr": None}, ck, {"op": "click_hyperlink", "slide": 0, "shape": 2, "addr": None}, ck, {"op": "restart"}]
        out.append(T("shared-url-refcount-%s" % kind, [{"deck": "default"}], evs))
    # set / read-by-reltype / clear / set again (same target), hyperlink and slide jump
    evs = [{"op": "add_slide", "layout": 6}, {"op": "add_slide", "layout": 6}, dict(box, op="add_shape", slide=0, type=1),
           {"op": "click_hyperlink", "slide": 0, "shape": 0, "addr": U}, {"op": "observe"}, {"op": "notes_access", "slide": 1},
           {"op": "click_hyperlink", "slide": 0, "shape": 0, "addr": None}, {"op": "click_hyperlink", "slide": 0, "shape": 0, "addr": U}, ck,
           {"op": "click_target", "slide": 0, "shape": 0, "target": 1}, {"op": "observe"}, {"op": "click_target", "slide": 0, "shape": 0, "target": None},
           {"op": "click_target", "slide": 0, "shape": 0, "target": 1}, ck, {"op": "restart"}]
    out.append(T("set-clear-set-same-target", [{"deck": "default"}], evs))
    # the same for slide jumps: three shapes jump to one slide; one re-targeted, one cleared, the last cleared
    evs = [{"op": "add_slide", "layout": 6}, {"op": "add_slide", "layout": 6}, {"op": "add_slide", "layout": 6}] + [dict(box, op="add_shape", slide=0, type=1) for _ in range(3)]
    evs += [{"op": "click_target", "slide": 0, "shape": i, "target": 1} for i in range(3)]
    evs += [ck, {"op": "click_target", "slide": 0, "shape": 1, "target": 2}, ck, {"op": "restart"}, {"op": "click_target", "slide": 0, "shape": 0, "target": None}, ck,
            {"op": "click_hyperlink", "slide": 0, "shape": 0, "addr": U}, ck, {"op": "click_target", "slide": 0, "shape": 2, "target": None}, ck, {"op": "restart"}]
    out.append(T("shared-jump-target-refcount", [{"deck": "default"}], evs))
    # other part families numbered by another producer (holes below the maximum, number 1 free), then ordinary allocations in each
    img_ = {"fmt": "PNG", "w": 3, "h": 3, "seed": 9, "mode": "RGB", "dpi": None}
    cd_ = {"kind": "cat", "cat_type": "str", "categories": ["a", "b"], "series": [{"name": "s", "values": [1, 2]}]}
    alloc = [dict(box, op="add_chart", slide=0, type="BAR_CLUSTERED", data=cd_), dict(box, op="add_chart", slide=0, type="PIE", data=cd_),
             dict(box, op="add_ole", slide=0, blob={"seed": 1, "len": 30}, src={"via": "stream", "pos": 0}, prog="XLSX", icon=None, isrc={"via": "stream", "pos": 0}, sized=False),
             {"op": "notes_access", "slide": 0}, {"op": "notes_access", "slide": 1},
             dict(box, op="add_picture", slide=0, img=img_, src={"via": "stream", "pos": 0}, size="none"),
             dict(box, op="add_picture", slide=0, img=dict(img_, seed=10), src={"via": "stream", "pos": 0}, size="none")]
    for deck in ("f-cht-legend.pptx", "f-cht-chart-props.pptx", "f-sld-notes.pptx", "f-prs-notes.pptx", "f-shp-shapes.pptx", "f-ph-populated-placeholders.pptx",
                 "f-prs-slide-masters.pptx", "t-test_slides.pptx"):
        for mode in ("odd", "shift", "sparse"):
            xf = [{"kind": "renumber", "family": fam, "mode": mode, "seed": 3} for fam in ("charts", "themes", "notes", "media", "embeddings")]
            out.append(T("renumbered-families-then-allocate-%s-%s" % (deck, mode), [{"deck": deck, "xform": xf}],
                         [{"op": "add_slide", "layout": 1}] + alloc + [ck, {"op": "restart"}] + alloc[:3] + [ck, {"op": "restart"}]))
    # a slide taken out of p:sldIdLst whose relationship and part stay behind, at every position: read, save, add slides, save
    for deck, n in (("f-sld-slides.pptx", 3), ("f-shp-shapes.pptx", 2), ("t-test_slides.pptx", 1), ("f-prs-notes.pptx", 2)):
        for k in range(n):
            for pre in ([], [ck], [{"op": "observe"}]):
                out.append(T("unlisted-slide-%s-%d-%d" % (deck, k, len(pre) + (1 if pre and pre[0].get("op") == "observe" else 0)),
                             [{"deck": deck, "xform": [{"kind": "unlist_slide", "k": k}]}],
                             pre + [{"op": "observe"}, ck, {"op": "add_slide", "layout": 0}, ck, {"op": "add_slide", "layout": 0}, ck, {"op": "restart"}, {"op": "observe"}, ck]))
    # click actions (URL and slide jump, on shapes and on runs) whose relationships a hover action refers to as well: changed, cleared
    evs = [{"op": "add_slide", "layout": 6}, {"op": "add_slide", "layout": 6}, dict(box, op="add_textbox", slide=0, text="one\ntwo"), dict(box, op="add_shape", slide=0, type=1),
           dict(box, op="add_shape", slide=0, type=1),
           {"op": "run_hyperlink", "slide": 0, "shape": 0, "para": 0, "run": 0, "addr": U}, {"op": "run_hyperlink", "slide": 0, "shape": 0, "para": 1, "run": 0, "addr": U + "x"},
           {"op": "click_hyperlink", "slide": 0, "shape": 1, "addr": U + "y"}, {"op": "click_target", "slide": 0, "shape": 2, "target": 1}, ck,
           {"op": "restart", "xform": [{"kind": "rewrite_slides", "how": "hover_links"}]},
           {"op": "run_hyperlink", "slide": 0, "shape": 0, "para": 0, "run": 0, "addr": None}, ck, {"op": "run_hyperlink", "slide": 0, "shape": 0, "para": 1, "run": 0, "addr": U + "z"}, ck,
           {"op": "click_hyperlink", "slide": 0, "shape": 1, "addr": None}, ck, {"op": "click_target", "slide": 0, "shape": 2, "target": None}, ck,
           dict(box, op="add_picture", slide=0, img=img_, src={"via": "stream", "pos": 0}, size="none"), ck, {"op": "restart"}]
    out.append(T("hover-actions-share-the-relationship", [{"deck": "default"}], evs))
    # an image that only an unused layout (or the master) holds: new image, layouts removed, another new image, the held image added again
    pic = lambda seed, existing=None: dict(box, op="add_picture", slide=0, img=dict(img_, seed=seed), src={"via": "stream", "pos": 0}, size="none", existing=existing)  # noqa: E731
    for deck in ("f-lyt-shapes.pptx", "f-mst-shapes.pptx", "f-mst-placeholders.pptx"):
        evs = [{"op": "add_slide", "layout": 0}, pic(21)] + [{"op": "remove_layout", "layout": k} for k in (0, 1, 2, 0, 1, 0)] + [pic(22), pic(0, 0), pic(0, 1), ck, {"op": "restart"}, pic(23), pic(0, 0), ck]
        out.append(T("image-held-by-a-layout-%s" % deck, [{"deck": deck}], evs))
    # a template with a logo on a layout no slide uses: new image, that layout removed, another new image of the same type, the logo again
    for deck, k in (("default.pptx", 10), ("default.pptx", 3), ("f-sld-slides.pptx", 5), ("t-test_slides.pptx", 2)):
        for later in (False, True):
            evs = [{"op": "add_slide", "layout": 0}, pic(21)] + ([ck, {"op": "restart"}, pic(24)] if later else []) + [{"op": "remove_layout", "layout": k}, pic(22), pic(0, 0), pic(0, 1), ck, {"op": "restart"}, pic(23), pic(0, 0), ck]
            out.append(T("logo-on-an-unused-layout-%s-%d-%d" % (deck, k, later), [{"deck": deck, "xform": [{"kind": "layout_logo", "k": k, "seed": 3}]}], evs))
    # non-contiguous / out-of-order slide part names, then additions (next slide partname must not collide)
    for deck in ("f-sld-slides.pptx", "t-test_slides.pptx", "f-prs-add-slide.pptx", "f-shp-shapes.pptx"):
        for mode in ("reverse", "rotate", "gaps", "shuffle", "lastfits", "firstbig", "midnext", "midnext2"):
            for sd in (1, 2, 3, 4, 5) if mode == "shuffle" else (1,):
                for pre in ([], [ck], [{"op": "observe"}]):
                    out.append(T("renamed-then-add-%s-%s-%d-%d" % (deck, mode, sd, len(pre) + (1 if pre and pre[0].get("op") == "observe" else 0)),
                                 [{"deck": deck, "xform": [{"kind": "rename_slides", "mode": mode, "seed": sd}]}],
                                 pre + [{"op": "add_slide", "layout": 0}, ck, {"op": "add_slide", "layout": 1}, ck, {"op": "add_slide", "layout": 0}, ck, {"op": "restart"}]))
    # gap re-use of rIds and part names: chart, OLE, movie x2 (same and different bytes), save, re-open, add again
    img = {"fmt": "PNG", "w": 3, "h": 3, "seed": 1, "mode": "RGB", "dpi": None}
    mv = lambda seed: dict(box, op="add_movie", slide=0, movie={"seed": seed, "len": 64}, src={"via": "stream", "pos": 0}, poster=img, psrc={"via": "stream", "pos": 0}, mime="video/mp4")  # noqa: E731
    ole = dict(box, op="add_ole", slide=0, blob={"seed": 1, "len": 30}, src={"via": "stream", "pos": 0}, prog="XLSX", icon=None, isrc={"via": "stream", "pos": 0}, sized=False)
    cd = {"kind": "cat", "cat_type": "str", "categories": ["a", "b"], "series": [{"name": "s", "values": [1, 2]}]}
    ch = dict(box, op="add_chart", slide=0, type="BAR_CLUSTERED", data=cd)
    evs = [{"op": "add_slide", "layout": 6}, ch, ole, mv(1), mv(1), mv(2), ck, {"op": "restart"}, ch, ole, mv(1), mv(3),
           {"op": "replace_data", "slide": 0, "shape": 0, "datas": {"cat": cd, "xy": {"kind": "xy", "series": []}, "bubble": {"kind": "bubble", "series": []}}}, ck, {"op": "restart"}]
    out.append(T("partname-reuse-chart-ole-movie", [{"deck": "default"}], evs))
    # layout removal: unused layout; refused removal of a used one
    evs = [{"op": "add_slide", "layout": 1}, {"op": "remove_layout", "layout": 5}, {"op": "remove_layout", "layout": 1}, {"op": "bad_call", "what": "layout_in_use", "i": 0, "slide": 0, "shape": 0},
           ck, {"op": "restart"}, {"op": "add_slide", "layout": 3}, ck]
    out.append(T("layout-removal", [{"deck": "default"}], evs))
    # creators' part-before-element order under source faults; ack rule / liveness under sink faults
    fl = {"via": "stream", "pos": 0, "fault": {"kind": "eio", "at": 1}}
    evs = [{"op": "add_slide", "layout": 6},
           dict(box, op="add_movie", slide=0, movie={"seed": 1, "len": 64}, src={"via": "stream", "pos": 0}, poster=img, psrc=fl, mime="video/mp4"),
           dict(box, op="add_movie", slide=0, movie={"seed": 1, "len": 64}, src=fl, poster=img, psrc={"via": "stream", "pos": 0}, mime="video/mp4"),
           dict(box, op="add_ole", slide=0, blob={"seed": 1, "len": 30}, src={"via": "stream", "pos": 0}, prog="XLSX", icon=img, isrc=fl, sized=False),
           dict(box, op="add_ole", slide=0, blob={"seed": 1, "len": 30}, src=fl, prog="XLSX", icon=None, isrc={"via": "stream", "pos": 0}, sized=False),
           dict(box, op="add_picture", slide=0, img=img, src={"via": "path", "fname": "x.png", "fault": {"kind": "missing"}}, size="none"), ck]
    for at in (1, 2, 150, 300):
        evs += [dict(ck, fault={"kind": "enospc", "at": at, "sticky": at == 2}), ck]
    evs += [dict(ck, sink="unseekable", fault={"kind": "crash", "at": 40, "torn": 3}), dict(box, op="add_textbox", slide=0, text="after crash"), ck, {"op": "restart"}]
    out.append(T("faults-in-creators-and-saves", [{"deck": "default"}], evs))
    # nothing is read lazily: the source file is clobbered after open; saving onto the source path works
    for how in ("garbage", "truncate", "delete"):
        out.append(T("source-clobbered-%s" % how, [{"deck": "f-shp-picture.pptx", "form": "path_keep"}],
                     [{"op": "observe"}, dict(ck, sink="samepath"), {"op": "clobber_source", "how": how}, {"op": "add_slide", "layout": 0},
                      dict(box, op="add_textbox", slide=0, text="after"), ck, dict(ck, sink="samepath"), {"op": "restart", "form": "path_keep"},
                      dict(ck, sink="samepath"), {"op": "restart"}]))
    # a movie is on the slide; the same clip is added again but its poster frame cannot be read; then save
    evs = [{"op": "add_slide", "layout": 6}, mv(1), dict(mv(1), psrc=fl), ck, dict(mv(1), psrc={"via": "stream", "pos": 0, "fault": {"kind": "eof", "at": 5}}), ck,
           dict(mv(2), src={"via": "stream", "pos": 0, "fault": {"kind": "eio", "at": 2}}), ck, {"op": "restart"}, dict(mv(1), psrc=fl), ck, {"op": "restart"}]
    out.append(T("poster-fault-after-same-clip", [{"deck": "default"}], evs))
    # one stream kept by the caller and saved into repeatedly while the deck shrinks and grows
    evs = [dict(ck, sink="reused"), {"op": "remove_layout", "layout": 3}, {"op": "remove_layout", "layout": 4}, {"op": "remove_layout", "layout": 5},
           dict(ck, sink="reused"), {"op": "add_slide", "layout": 0}, dict(box, op="add_textbox", slide=0, text="grow"), dict(ck, sink="reused"),
           {"op": "remove_layout", "layout": 2}, dict(ck, sink="reused"), {"op": "restart"}]
    out.append(T("reused-stream-shrinking-deck", [{"deck": "default"}], evs))
    return out
