"""Directed packages pinned into C01's tiers."""

IMG = "http://schemas.openxmlformats.org/officeDocument/2006/relationships/image"
PML_PS = "application/vnd.openxmlformats-officedocument.presentationml.printerSettings"
SML_PS = "application/vnd.openxmlformats-officedocument.spreadsheetml.printerSettings"
CYC = {"form": "stream", "pos": 0, "sink1": "seekable", "sink2": "seekable", "form2": "stream", "api": "package"}


def P(name, ctype="application/x-foo", rels=(), kind="bytes"):
    return {"name": name, "ctype": ctype, "payload": {"kind": kind, "seed": len(name), "len": 20}, "rels": list(rels)}


def R(i, target, mode="Internal", t=IMG):
    return {"id": i, "type": t, "target": target, "mode": mode}


def T(name, parts, root_rels, defaults=(), overrides=None, cyc=None):
    if overrides is None:
        overrides = [[p["name"], p["ctype"]] for p in parts]
    return {"property": "C01", "seed": name, "tier": "pinned", "cycle": dict(CYC, **(cyc or {})), "events": [],
            "pkg": {"parts": parts, "root_rels": root_rels, "defaults": list(defaults), "overrides": overrides,
                    "order_seed": 1, "stored": False}}


def traces():
    out = []
    # 3-part cycle + self-loop
    out.append(T("cycle3-selfloop",
                 [P("/a/p1.bin", rels=[R("rId1", "../b/p2.bin"), R("rId2", "p1.bin")]),
                  P("/b/p2.bin", rels=[R("rId1", "/c/d/p3.bin")]),
                  P("/c/d/p3.bin", rels=[R("rId7", "../../a/p1.bin"), R("x", "http://e.x/", "External")])],
                 [R("rId1", "a/p1.bin")]))
    # default vs override: two parts, same ext, different types
    for name, t1, t2 in (("both-in-defaults", PML_PS, SML_PS), ("one-in-one-out", PML_PS, "application/x-foo"),
                         ("neither", "application/x-a", "application/x-b"), ("same", PML_PS, PML_PS)):
        for dflt in (None, t1, t2):
            out.append(T("ctype-%s-default-%s" % (name, "none" if dflt is None else ("t1" if dflt == t1 else "t2")),
                         [P("/x/one.bin", t1), P("/x/two.bin", t2)],
                         [R("rId1", "x/one.bin"), R("rId2", "x/two.bin")],
                         defaults=[["bin", dflt]] if dflt else [],
                         overrides=[[n, t] for n, t in (("/x/one.bin", t1), ("/x/two.bin", t2)) if t != dflt]))
    # extension case: Default declared upper-case, part lower-case and vice versa; Override with other case
    out.append(T("ctype-case",
                 [P("/m/a.PNG", "image/png"), P("/m/b.png", "image/png"), P("/m/C.Jpeg", "image/jpeg")],
                 [R("rId1", "m/a.PNG"), R("rId2", "m/b.png"), R("rId3", "m/C.Jpeg")],
                 defaults=[["Png", "image/png"]], overrides=[["/M/c.JPEG", "image/jpeg"]]))
    # relative_ref / from_rel_ref: root-level <-> depth 4, sibling-prefix dirs, absolute and ./ targets
    out.append(T("relref-depths",
                 [P("/root.bin", rels=[R("rId1", "a/b/c/d/deep.bin"), R("rId2", "./a/bX/s.bin")]),
                  P("/a/b/c/d/deep.bin", rels=[R("rId1", "../../../../root.bin"), R("rId2", "/a/b/s.bin"),
                                               R("rId3", "../../../bX/s.bin")]),
                  P("/a/b/s.bin", rels=[R("rId1", "../bX/s.bin")]),
                  P("/a/bX/s.bin", rels=[R("rId1", "../b/s.bin"), R("rId2", "../b/c/../c/d/deep.bin")])],
                 [R("rId1", "root.bin"), R("rId2", "/root.bin", t="urn:second")]))
    # parallel relationships, shared target, non-rIdN ids, extension-less part, unreachable member
    out.append(T("parallel-shared-oddids",
                 [P("/p/noext", rels=[R("A", "t.dat"), R("B", "t.dat", t="urn:other"), R("rId5", "t.dat")]),
                  P("/p/t.dat"), P("/p/orphan.dat")],
                 [R("rId10", "p/noext"), R("rId2", "p/t.dat")]))
    # percent-escapes are part of a part name (the ZIP item is called exactly that); targets spell them the same way
    for form in ("stream", "path", "dir"):
        out.append(T("percent-escaped-names-%s" % form,
                     [P("/ppt/slides/slide1.bin", rels=[R("rId1", "../media/my%20picture.png"), R("rId2", "/ppt/media/%C3%A9t%C3%A9.png"),
                                                        R("rId3", "../my%20dir/100%25.dat")]),
                      P("/ppt/media/my%20picture.png", "image/png"), P("/ppt/media/%C3%A9t%C3%A9.png", "image/png"),
                      P("/ppt/my%20dir/100%25.dat", rels=[R("rId1", "../media/my%20picture.png")])],
                     [R("rId1", "ppt/slides/slide1.bin")], cyc={"form": form, "form2": form}))
    # TargetMode="Internal" spelled out on some relationships only: the only route to a part may be such a relationship
    out.append(T("explicit-internal-target-mode",
                 [P("/a/p1.bin", rels=[dict(R("rId1", "../b/p2.bin"), explicit=True), R("rId2", "../b/p3.bin")]),
                  P("/b/p2.bin", rels=[dict(R("rId1", "p4.bin"), explicit=True)]), P("/b/p3.bin"), P("/b/p4.bin")],
                 [dict(R("rId1", "a/p1.bin"), explicit=True)]))
    # XML part types python-pptx re-serialises
    out.append(T("xmlparts",
                 [P("/ppt/slides/slide1.xml", "application/vnd.openxmlformats-officedocument.presentationml.slide+xml",
                    rels=[R("rId1", "../charts/chart1.xml")], kind="xml"),
                  P("/ppt/charts/chart1.xml", "application/vnd.openxmlformats-officedocument.drawingml.chart+xml", kind="xml"),
                  P("/docProps/core.xml", "application/vnd.openxmlformats-package.core-properties+xml", kind="xml")],
                 [R("rId1", "ppt/slides/slide1.xml"), R("rId2", "docProps/core.xml")],
                 cyc={"form": "dir", "sink1": "unseekable", "sink2": "path", "form2": "path"}))
    out.append(T("empty-package", [], []))
    return out
