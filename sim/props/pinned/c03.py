"""Directed histories pinned into C03's tiers."""

BOX = {"x": 100000, "y": 100000, "cx": 3000000, "cy": 1000000}


def T(name, events, start=None):
    return {"property": "C03", "seed": name, "tier": "pinned", "config": {"pinned": name},
            "start": start or [{"deck": "default"}], "events": events}


def traces():
    out = []
    base = [{"op": "add_slide", "layout": 6}]
    # a:pPr placement: paragraph starting with a line break, then each paragraph property
    for text in ("\nfoo", "\vfoo", "foo\vbar", "\v"):
        for level in ("tf_text", "p_text"):
            for prop, v in (("alignment", "CENTER"), ("level", 2), ("line_spacing", 1.5), ("space_before", {"pt": 6}),
                            ("space_after", {"pt": 6}), ("line_spacing", {"pt": 14})):
                evs = base + [dict(BOX, op="add_textbox", slide=0, text="x")]
                if level == "tf_text":
                    evs.append({"op": "tf_text", "slide": 0, "shape": 0, "text": text})
                else:
                    evs.append({"op": "p_text", "slide": 0, "shape": 0, "para": 0, "text": text})
                for para in (0, 1):
                    evs.append({"op": "para_prop", "slide": 0, "shape": 0, "para": para, "prop": prop, "v": v})
                    evs.append({"op": "font_prop", "slide": 0, "shape": 0, "para": para, "where": "para", "prop": "bold", "v": True})
                out.append(T("ppr-after-br-%s-%s-%s" % (level, repr(text), prop), evs))
    # choice groups: fill solid -> gradient -> patterned -> background on shape, line, cell, font
    fills = [dict(mode=m, rgb="FF0000", theme=None, pattern="CROSS", angle=45 if m == "gradient" else None,
                  bright=0.3 if m == "solid" else None, stop=0 if m == "gradient" else None)
             for m in ("solid", "gradient", "patterned", "background", "solid", "patterned", "gradient")]
    evs = base + [dict(BOX, op="add_shape", slide=0, type=1), dict(BOX, op="add_table", slide=0, rows=2, cols=2)]
    for f in fills:
        evs.append(dict(f, op="shape_fill", slide=0, shape=0))
        evs.append(dict(f, op="shape_line", slide=0, shape=0, what="fill", wv=12700, dash=None))
        evs.append(dict(f, op="cell_prop", slide=0, shape=0, r=0, c=0, prop="fill", m=None, v=0))
    out.append(T("fill-choice-groups", evs))
    return out
