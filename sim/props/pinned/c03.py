"""Directed histories pinned into C03's tiers."""

BOX = {"x": 100000, "y": 100000, "cx": 3000000, "cy": 1000000}


def T(name, events, start=None):
    return {"property": "C03", "seed": name, "tier": "pinned", "config": {"pinned": name},
            "start": start or [{"deck": "default"}], "events": events}


def traces():
    out = []
    base = [{"op": "add_slide", "layout": 6}]
    # a:pPr placement: paragraph starting with a line break, then each paragraph property
    for text in ("\nfoo", "\vfoo", "foo\vbar", "\v"):
        for level in ("tf_text", "p_text"):
            for prop, v in (("alignment", "CENTER"), ("level", 2), ("line_spacing", 1.5), ("space_before", {"pt": 6}),
                            ("space_after", {"pt": 6}), ("line_spacing", {"pt": 14})):
                evs = base + [dict(BOX, op="add_textbox", slide=0, text="x")]
                if level == "tf_text":
                    evs.append({"op": "tf_text", "slide": 0, "shape": 0, "text": text})
                else:
                    evs.append({"op": "p_text", "slide": 0, "shape": 0, "para": 0, "text": text})
                for para in (0, 1):
                    evs.append({"op": "para_prop", "slide": 0, "shape": 0, "para": para, "prop": prop, "v": v})
                    evs.append({"op": "font_prop", "slide": 0, "shape": 0, "para": para, "where": "para", "prop": "bold", "v": True})
                out.append(T("ppr-after-br-%s-%s-%s" % (level, repr(text), prop), evs))
    # choice groups: fill solid -> gradient -> patterned -> background on shape, line, cell, font
    fills = [dict(mode=m, rgb="FF0000", theme=None, pattern="CROSS", angle=45 if m == "gradient" else None,
                  bright=0.3 if m == "solid" else None, stop=0 if m == "gradient" else None)
             for m in ("solid", "gradient", "patterned", "background", "solid", "patterned", "gradient")]
    evs = base + [dict(BOX, op="add_shape", slide=0, type=1), dict(BOX, op="add_table", slide=0, rows=2, cols=2)]
    for f in fills:
        evs.append(dict(f, op="shape_fill", slide=0, shape=0))
        evs.append(dict(f, op="shape_line", slide=0, shape=0, what="fill", wv=12700, dash=None))
        evs.append(dict(f, op="cell_prop", slide=0, shape=0, r=0, c=0, prop="fill", m=None, v=0))
    out.append(T("fill-choice-groups", evs))
    # every corpus deck once: a short formatting history on whatever it contains (selectors wrap around; operations that
    # find no target are skipped), so that every PowerPoint-authored pre-state is exercised on every run
    import os
    decks = sorted(f for f in os.listdir(os.path.join(os.path.dirname(os.path.dirname(os.path.dirname(os.path.dirname(os.path.abspath(__file__))))), "decks")) if f.endswith(".pptx"))
    fill = dict(mode="solid", rgb="00AA55", theme="ACCENT_2", pattern="DIVOT", angle=None, bright=-0.25, stop=None)
    grad = dict(fill, mode="gradient", angle=90.5, stop=1)
    for d in decks:
        evs = []
        for sl_ in (0, 1, 2):
            evs += [
                {"op": "tf_text", "slide": sl_, "shape": 0, "text": "\vlead\nsecond"},
                {"op": "para_prop", "slide": sl_, "shape": 0, "para": 0, "prop": "line_spacing", "v": 1.5},
                {"op": "para_prop", "slide": sl_, "shape": 1, "para": 1, "prop": "space_before", "v": {"pt": 6}},
                {"op": "font_prop", "slide": sl_, "shape": 0, "para": 0, "run": 0, "where": "run", "prop": "theme", "v": "ACCENT_1"},
                {"op": "font_prop", "slide": sl_, "shape": 2, "para": 0, "run": 0, "where": "para", "prop": "size", "v": {"pt": 10.5}},
                {"op": "tf_prop", "slide": sl_, "shape": 1, "prop": "auto_size", "v": 2, "m": 0},
                {"op": "tf_prop", "slide": sl_, "shape": 1, "prop": "margin_left", "v": 0, "m": 12345},
                dict(fill, op="shape_fill", slide=sl_, shape=0), dict(grad, op="shape_fill", slide=sl_, shape=1),
                dict(fill, op="shape_line", slide=sl_, shape=0, what="fill", wv=0, dash=None),
                {"op": "shape_line", "slide": sl_, "shape": 1, "what": "dash", "wv": 0, "dash": "LONG_DASH_DOT", **fill},
                {"op": "shape_shadow", "slide": sl_, "shape": 0, "v": False},
                {"op": "set_rotation", "slide": sl_, "shape": 0, "v": 359.99},
                {"op": "cell_text", "slide": sl_, "shape": 0, "r": 0, "c": 0, "text": "cell\vbreak"},
                dict(fill, op="cell_prop", slide=sl_, shape=0, r=0, c=1, prop="fill", m=None, v=0),
                {"op": "cell_merge", "slide": sl_, "shape": 0, "r": 0, "c": 0, "r2": 1, "c2": 1},
                {"op": "table_flag", "slide": sl_, "shape": 0, "r": 0, "c": 0, "flag": "last_col", "v": True},
                {"op": "run_hyperlink", "slide": sl_, "shape": 0, "para": 0, "run": 0, "addr": "http://example.com/?a=1&b=2"},
                {"op": "click_target", "slide": sl_, "shape": 1, "target": 0},
                {"op": "background_fill", "slide": sl_, "mode": "solid", "where": "slide", "rgb": "123456"},
                {"op": "notes_text", "slide": sl_, "text": "note\nline"},
            ]
            for k in range(6):
                evs.append({"op": "chart_fmt", "slide": sl_, "shape": k, "what": ["has_title", "title_text", "cat_axis", "val_axis", "data_labels", "series_fill"][k],
                            "b": True, "i": k, "j": k + 1, "text": "T<&>", "f": 10, **fill})
        evs.append({"op": "add_slide", "layout": 1})
        evs.append({"op": "checkpoint", "sink": "seekable"})
        out.append(T("corpus-%s" % d, evs, start=[{"deck": d}]))
        # every kind of ADDITION on every slide the deck brings (timing trees, extension lists, backgrounds ... are PowerPoint's there)
        img = {"fmt": "PNG", "w": 3, "h": 3, "seed": 1, "mode": "RGB", "dpi": None}
        cd = {"kind": "cat", "cat_type": "str", "categories": ["a", "b"], "series": [{"name": "s", "values": [1, 2]}]}
        evs = []
        for sl_ in range(6):
            b = dict(BOX, slide=sl_)
            evs += [dict(b, op="add_movie", movie={"seed": 1, "len": 32}, src={"via": "stream", "pos": 0}, poster=img, psrc={"via": "stream", "pos": 0}, mime="video/mp4"),
                    dict(b, op="add_movie", movie={"seed": 2, "len": 32}, src={"via": "stream", "pos": 0}, poster=None, psrc={"via": "stream", "pos": 0}, mime="video/mp4"),
                    dict(b, op="add_picture", img=img, src={"via": "stream", "pos": 0}, size="none"),
                    dict(b, op="add_chart", type="LINE", data=cd), dict(b, op="add_table", rows=2, cols=2),
                    dict(b, op="add_ole", blob={"seed": 1, "len": 30}, src={"via": "stream", "pos": 0}, prog="XLSX", icon=None, isrc={"via": "stream", "pos": 0}, sized=False),
                    dict(b, op="add_connector", type="ELBOW", ex=5, ey=5), dict(b, op="add_group", n=2, boxes=[BOX, BOX, BOX]),
                    dict(b, op="add_textbox", text="t"), {"op": "notes_text", "slide": sl_, "text": "n"},
                    {"op": "background_fill", "slide": sl_, "mode": "solid", "where": "slide", "rgb": "102030"}]
        evs += [{"op": "checkpoint", "sink": "seekable"}, {"op": "restart"}]
        out.append({"property": "C03", "seed": "corpus-additions-%s" % d, "tier": "pinned", "config": {"pinned": "corpus-additions-%s" % d, "max_shapes": 200, "max_slides": 40},
                    "start": [{"deck": d}], "events": evs})
    out.extend(pair_orders())
    out.extend(after_another_producer())
    return out


def after_another_producer():
    """The kit saved, rewritten by a producer that writes optional children python-pptx never writes (a:custDash on outlines, c:spPr in
    c:dLbls) or spells booleans as words, re-opened - then every catalog property of the objects concerned is assigned."""
    import random
    from .. import c09
    c09.build_catalog()
    out = []
    ck = {"op": "checkpoint", "sink": "seekable"}
    for xf in ([{"kind": "rewrite_slides", "how": "optional_children"}, {"kind": "rewrite_charts", "how": "optional_children"}],
               [{"kind": "rewrite_slides", "how": "bool_words"}, {"kind": "rewrite_charts", "how": "reverse_idx"}]):
        for objs in (("dlbls", "dlbl", "plot", "barplot"), ("line", "shape", "cxn"), ("font", "p", "tf", "cell", "tbl"), ("vax", "cax", "legend", "chart")):
            evs = list(c09.kit_events())
            eids = [e for e in sorted(c09.CAT) if c09.CAT[e]["obj"] in objs]
            # make sure the containers exist before the rewrite
            for eid in eids[:6]:
                r = random.Random(eid)
                g = c09.CAT[eid]["good"]
                evs.append({"op": "c09.set", "entry": eid, "v": g(r) if callable(g) else list(g)[0], "kind": "good", "slide": 0, "i": 0})
            evs += [ck, {"op": "restart", "xform": xf}]
            for eid in eids:
                r = random.Random(eid + "/2")
                g = c09.CAT[eid]["good"]
                for k in range(2):
                    evs.append({"op": "c09.set", "entry": eid, "v": g(r) if callable(g) else list(g)[k % len(g)], "kind": "good", "slide": 0, "i": k})
            evs += [ck]
            out.append(T("after-another-producer-%s-%s" % (xf[0]["how"], objs[0]), evs))
    return out


def pair_orders():
    """Insertion order: for every ordered pair (A, B) of catalog properties of one object, B's setting is removed and made again
    while A's is present, and again while A's is absent.  (Child elements are inserted relative to the siblings that happen to
    exist at that moment: each call alone, and most orders, say nothing about the order that misplaces one.)"""
    import random
    from .. import c09
    c09.build_catalog()
    by_obj = {}
    for eid in sorted(c09.CAT):
        by_obj.setdefault(c09.CAT[eid]["obj"], []).append(eid)

    def good(eid, k=0):
        e = c09.CAT[eid]
        r = random.Random("%s/%d" % (eid, k))
        return e["good"](r) if callable(e["good"]) else list(e["good"])[k % len(e["good"])]

    def off(eid):
        e = c09.CAT[eid]
        if e["none"] is not None:
            return {"k": "none"}
        goods = [] if callable(e["good"]) else list(e["good"])
        if {"k": "bool", "v": False} in goods:
            return {"k": "bool", "v": False}
        return None

    def on(eid):
        e = c09.CAT[eid]
        goods = [] if callable(e["good"]) else list(e["good"])
        if {"k": "bool", "v": True} in goods:
            return {"k": "bool", "v": True}
        v = good(eid, 1)
        return good(eid, 2) if v == {"k": "none"} else v

    out = []
    kit = c09.kit_events()
    for obj, eids in sorted(by_obj.items()):
        if len(eids) < 2:
            continue
        for a in eids:
            evs = list(kit)
            st = lambda eid, v: {"op": "c09.set", "entry": eid, "v": v, "kind": "good", "slide": 0, "i": 0}  # noqa: E731
            for a_state in ("present", "absent"):
                va = on(a) if a_state == "present" else off(a)
                if va is None:
                    continue
                for b in eids:
                    if b == a or off(b) is None:
                        continue
                    evs += [st(a, va), st(b, off(b)), st(b, on(b))]
            if len(evs) > len(kit):
                evs.append({"op": "checkpoint", "sink": "seekable"})
                out.append(T("pair-order-%s" % a, evs))
    return out
