"""C07 - a chart's XML is valid and reports exactly the data it was given.
(Also hosts the shared chart operations and the C08 workbook oracle; see c08.py.)"""
from __future__ import annotations

import copy
import datetime as _dt
import math

from lxml import etree

from .. import gens, refpkg, xlsxref, xsd
from .. import ops as O
from ..engine import Oracle, jdump
from ..rng import Streams
from . import common

ID = "C07"
LEVEL = "exploration"
RULE = ("seeded histories add_chart(type, data0) -> [format series] -> replace_data(data_i)* -> restart -> replace_data* over all "
        "29 writable chart types (plus insert_chart into chart placeholders and replace_data on PowerPoint-authored corpus "
        "charts), data from a seeded generator: 0-30 series (thorough 0-60), 0-hundreds of points, string / number / date / "
        "1-4-level ragged categories, missing values, custom number formats, dates either side of 1900-02-29; oracle = "
        "dml-chart.xsd (differential on corpus charts) + read-API model of the supplied data + unique c:idx/c:order + frame "
        "check (replace_data changes names/categories/values only) + same readings after restart; non-trivial = >=1 add and "
        ">=1 replace_data verified, or >=3 adds; distinct = distinct event-log digest")
ASSUMPTIONS = [
    "category charts get at least one category and pie/doughnut at least one series (quantifier); data kind matches chart kind",
    "numeric and date category labels are compared as numbers (decimal text of the number / 1900-system serial)",
    "after replace_data with fewer series, surplus c:ser and plots left without series are expected to be removed (statement)",
    "float values are compared with ==; XlsxWriter is real and trusted to write what it is told",
    "a chart left without any plot (known finding F-8) is no longer operated on",
]
CLAUSES = {
    "accept": "For every supported chart type and any chart data ... adding a chart or replacing its data yields a chart part",
    "xsd": "valid against the DrawingML chart schema",
    "names": "whose plots report, through the read API, exactly the series names ... supplied",
    "values": "... and values supplied (None where a value was missing)",
    "cats": "and the categories supplied (strings verbatim, every level; numbers and dates as the decimal text of the number "
            "or serial date)",
    "idx": "with series index and order values unique",
    "frame": "Replacing data changes names, categories and values only: formatting of surviving series and all other chart "
             "content is untouched, apart from the removal of surplus series and of plots left without any",
    "persist": "(same readings after save and re-open)",
    "c08-size": "each referenced range has the size announced by the point count",
    "c08-cell": "each cached point equals the cell it is indexed to (dates as serial numbers in the chart's date system)",
    "c08-ref": "the embedded workbook, read as an .xlsx file, holds the categories, series names and values in exactly the cell "
               "ranges named by the formula references in the chart XML",
}
C = "{http://schemas.openxmlformats.org/drawingml/2006/chart}"


def _memo(deck):
    return deck.memo.setdefault("c07", {"charts": {}})


def checks(w):
    return w.cfg.get("chart_checks", ["c07"])


# ---- expectations from a data recipe --------------------------------------------------------------------------------

def excel_serial(d: _dt.date, date1904: bool = False) -> float:
    if date1904:
        return float((d - _dt.date(1904, 1, 1)).days)
    n = (d - _dt.date(1899, 12, 31)).days
    if n > 59:
        n += 1
    return float(n)


def chart_is_1904(chart_blob: bytes) -> bool:
    d = refpkg.parse(chart_blob).find(C + "date1904")
    return d is not None and d.get("val", "1") in ("1", "true")


def expected_of(rec: dict, date1904: bool = False):
    kind = rec["kind"]
    exp = {"kind": kind, "names": [s["name"] for s in rec["series"]]}
    if kind == "cat":
        cats = rec["categories"]
        if isinstance(cats, dict):
            flat = []

            def walk(node, prefix):
                p = prefix + [node["label"]]
                if node.get("sub"):
                    for s in node["sub"]:
                        walk(s, p)
                else:
                    flat.append(p)
            for t in cats["tree"]:
                walk(t, [])
            exp["flat"] = flat
            exp["cat_type"] = "multi"
        else:
            labels = []
            for c in cats:
                if isinstance(c, dict):
                    labels.append(excel_serial(_dt.date.fromisoformat(c["date"]), date1904))
                else:
                    labels.append(c)
            exp["labels"] = labels
            exp["cat_type"] = rec["cat_type"]
        exp["values"] = [[None if v is None else float(v) for v in s["values"]] for s in rec["series"]]
    else:
        exp["values"] = [[None if p[1] is None else float(p[1]) for p in s["points"]] for s in rec["series"]]
    return exp


def _feq(a, b):
    if a is None or b is None:
        return a is b
    return a == b or (isinstance(a, float) and isinstance(b, float) and math.isnan(a) and math.isnan(b))


def verify_readings(w, chart, exp, when):
    plots = list(chart.plots)
    sers = [s for p in plots for s in p.series]
    names = [s.name for s in sers]
    if names != exp["names"]:
        ctn = None
        try:
            ctn = chart.chart_type.name
        except Exception:  # noqa: BLE001
            pass
        if ctn in ("PIE", "PIE_EXPLODED") and len(exp["names"]) > 1 and names == exp["names"][:1] and when == "after-add":
            # known finding F-16: the pie writer emits only the first series
            w.report("names|count|after-add|pie-chart-writer-keeps-first-series-only", "want=%r got=%r" % (exp["names"][:6], names[:6]), CLAUSES["names"])
            exp = dict(exp, names=exp["names"][:1], values=exp["values"][:1])
        else:
            w.report("names|%s|%s" % ("count" if len(names) != len(exp["names"]) else "content", when),
                     "want=%r got=%r" % (exp["names"][:6], names[:6]), CLAUSES["names"])
            return
    for i, s in enumerate(sers):
        got = list(s.values)
        want = exp["values"][i]
        if len(got) != len(want) or not all(_feq(a, b) for a, b in zip(got, want)):
            cls = "count" if len(got) != len(want) else ("none-handling" if any((a is None) != (b is None) for a, b in zip(got, want)) else "number")
            w.report("values|%s|%s" % (cls, when), "series %d want=%r got=%r" % (i, want[:8], got[:8]), CLAUSES["values"])
            return
    if exp["kind"] == "cat" and plots and sers:
        cats = plots[0].categories
        if exp.get("cat_type") == "multi":
            got = [list(t) for t in cats.flattened_labels]
            if got != exp["flat"]:
                w.report("cats|multi-level|%s" % when, "want=%r got=%r" % (exp["flat"][:6], got[:6]), CLAUSES["cats"])
            if cats.depth != len(exp["flat"][0]):
                w.report("cats|depth|%s" % when, "want=%d got=%d" % (len(exp["flat"][0]), cats.depth), CLAUSES["cats"])
        else:
            got = [str(c) for c in cats]
            want = exp["labels"]
            if exp["cat_type"] == "str":
                if got != want:
                    w.report("cats|strings|%s|%s" % ("count" if len(got) != len(want) else "content", when), "want=%r got=%r" % (want[:6], got[:6]), CLAUSES["cats"])
            else:
                try:
                    ok = len(got) == len(want) and all(float(g) == float(x) for g, x in zip(got, want))
                except ValueError:
                    ok = False
                if not ok:
                    w.report("cats|%s|%s" % (exp["cat_type"], when), "want=%r got=%r" % (want[:6], got[:6]), CLAUSES["cats"])
    w.stats.hit("c07_readings_verified")


def verify_idx_order(w, chart_blob, when):
    root = refpkg.parse(chart_blob)
    idx = [e.find(C + "idx").get("val") for e in root.iter(C + "ser") if e.find(C + "idx") is not None]
    order = [e.find(C + "order").get("val") for e in root.iter(C + "ser") if e.find(C + "order") is not None]
    if len(set(idx)) != len(idx):
        w.report("idx|duplicate-c:idx|%s" % when, "idx=%r" % idx[:12], CLAUSES["idx"])
    if len(set(order)) != len(order):
        w.report("idx|duplicate-c:order|%s" % when, "order=%r" % order[:12], CLAUSES["idx"])


def verify_xsd(w, deck, key, chart_blob, when):
    name, sigs = xsd.validate_blob(chart_blob)
    base = set(_memo(deck)["charts"].get(key, {}).get("xsd_base", []))
    for s in sigs:
        if s not in base:
            w.report(s, "chart %s (%s)" % (key, when), CLAUSES["xsd"])
    w.stats.hit("c07_xsd_checks")


# ---- frame check ---------------------------------------------------------------------------------------------------------------

DATA_TAGS = {C + t for t in ("tx", "cat", "val", "xVal", "yVal", "bubbleSize")}


def masked(chart_blob: bytes, keep: int) -> bytes:
    root = etree.fromstring(chart_blob, etree.XMLParser(remove_blank_text=True))
    sers = list(root.iter(C + "ser"))

    def _rank(ser):
        par = ser.getparent()
        gp = par.getparent() if par is not None else None
        pos = list(gp).index(par) if gp is not None else 0
        e = ser.find(C + "order")
        try:
            return (pos, int(e.get("val")))
        except (AttributeError, TypeError, ValueError):
            return (pos, 10 ** 9)
    # which series survive a replacement with fewer series: plots in document order, within a plot by c:order (not document order)
    sers = [s_ for _r, _i, s_ in sorted((_rank(s_), i_, s_) for i_, s_ in enumerate(sers))]
    for i, ser in enumerate(sers):
        if i >= keep:
            ser.getparent().remove(ser)
            continue
        for ch in list(ser):
            if ch.tag in DATA_TAGS:
                ser.remove(ch)
    pa = root.find(C + "chart/" + C + "plotArea")
    if pa is not None:
        for x in list(pa):
            if isinstance(x.tag, str) and x.tag.endswith("Chart") and x.find(C + "ser") is None:
                pa.remove(x)
    return etree.tostring(root, method="c14n")


def verify_frame(w, before: bytes, after: bytes, n_before: int, n_after: int):
    k = min(n_before, n_after)
    a, b = masked(before, k), masked(after, k)
    if a != b:
        from .c12 import _diff_class, _first_diff
        w.report("frame|replace_data-touched-other-content|%s" % _diff_class(a, b), _first_diff(a, b), CLAUSES["frame"])
    w.stats.hit("c07_frame_checks")


# ---- C08: cache vs workbook -------------------------------------------------------------------------------------------------------

def verify_workbook(w, chart_blob: bytes, xlsx_blob: bytes, when):
    root = refpkg.parse(chart_blob)
    try:
        wb = xlsxref.Workbook(xlsx_blob)
    except Exception as e:  # noqa: BLE001
        w.report("c08|workbook-unreadable|%s" % type(e).__name__, repr(e), CLAUSES["c08-ref"])
        return
    d1904 = root.find(C + "date1904")
    chart_1904 = d1904 is not None and d1904.get("val", "1") in ("1", "true")
    if chart_1904 != wb.date1904:
        # known finding F-28: replace_data on a 1904-system chart caches 1904 serials but always writes a 1900-system workbook
        w.report("c08|date-system-differs", "chart date1904=%s workbook date1904=%s" % (chart_1904, wb.date1904), CLAUSES["c08-cell"])
    w.scratch["c08_systems_differ"] = chart_1904 != wb.date1904
    n = 0
    for f in root.iter(C + "f"):
        ref = f.getparent()
        kind = etree.QName(ref).localname  # strRef | numRef | multiLvlStrRef
        try:
            sheet, c1, r1, c2, r2 = xlsxref.parse_ref(f.text or "")
        except ValueError:
            w.report("c08|unparseable-reference", repr(f.text), CLAUSES["c08-ref"])
            continue
        rows = r2 - r1 + 1
        cols = c2 - c1 + 1
        if kind == "multiLvlStrRef":
            cache = ref.find(C + "multiLvlStrCache")
            if cache is None:
                continue
            pc = cache.find(C + "ptCount")
            ptc = int(pc.get("val")) if pc is not None else None
            lvls = cache.findall(C + "lvl")
            if ptc is not None and rows != ptc:
                w.report("c08|range-size|multi-level|%s" % when, "ref=%s rows=%d ptCount=%d" % (f.text, rows, ptc), CLAUSES["c08-size"])
            if cols != len(lvls):
                w.report("c08|range-size|multi-level-columns|%s" % when, "ref=%s cols=%d levels=%d" % (f.text, cols, len(lvls)), CLAUSES["c08-size"])
            for j, lvl in enumerate(lvls):
                col = c2 - j  # c:lvl lists the innermost (rightmost column) level first
                for pt in lvl.findall(C + "pt"):
                    i = int(pt.get("idx"))
                    v = pt.find(C + "v")
                    cell = wb.cell(r1 + i, col)
                    if not _cell_eq(v.text if v is not None else "", cell, "str"):
                        _report_cell(w, wb, r1 + i, col, v.text if v is not None else "", cell, "multi-level", when,
                                     "ref=%s lvl=%d idx=%d cache=%r cell=%r" % (f.text, j, i, v.text if v is not None else None, cell))
                    n += 1
            continue
        cache = ref.find(C + ("strCache" if kind == "strRef" else "numCache"))
        if cache is None:
            continue
        pc = cache.find(C + "ptCount")
        ptc = int(pc.get("val")) if pc is not None else None
        size = rows * cols if rows > 0 else 0
        if ptc is not None and size != ptc:
            # a series without points is written with the inverted one-past range $B$2:$B$1 (there is no empty-range notation)
            if not (ptc == 0 and rows == 0):
                w.report("c08|range-size|%s|%s" % (kind, when), "ref=%s cells=%d ptCount=%d" % (f.text, size, ptc), CLAUSES["c08-size"])
        seen_idx = set()
        for pt in cache.findall(C + "pt"):
            i = int(pt.get("idx"))
            seen_idx.add(i)
            v = pt.find(C + "v")
            cell = wb.cell(r1 + i, c1) if cols == 1 else wb.cell(r1, c1 + i)
            if not _cell_eq(v.text if v is not None else "", cell, "str" if kind == "strRef" else "num"):
                rc = (r1 + i, c1) if cols == 1 else (r1, c1 + i)
                _report_cell(w, wb, rc[0], rc[1], v.text if v is not None else "", cell, kind, when,
                             "ref=%s idx=%d cache=%r cell=%r" % (f.text, i, v.text if v is not None else None, cell),
                             is_cat=ref.getparent() is not None and ref.getparent().tag == C + "cat")
            n += 1
        # cells of the range that hold a value must be cached
        for i in range(max(rows, 0)):
            if i not in seen_idx and cols == 1:
                cell = wb.cell(r1 + i, c1)
                if cell is not None and cell != "":
                    w.report("c08|cell-not-cached|%s|%s" % (kind, when), "ref=%s idx=%d cell=%r" % (f.text, i, cell), CLAUSES["c08-cell"])
    w.stats.hit("c08_points_compared", n)
    w.stats.hit("c08_workbooks_verified")


def _report_cell(w, wb, row, col, cache_text, cell, kind, when, detail, is_cat=False):
    if is_cat and kind == "numRef" and w.scratch.get("c08_systems_differ"):
        try:
            if abs(abs(float(cell) - float(cache_text)) - 1462.0) <= 1.0:
                # the same finding seen cell by cell: the two date systems are 1462 days apart
                w.report("c08|date-system-differs", detail, CLAUSES["c08-cell"])
                return
        except (TypeError, ValueError):
            pass
    if is_cat and kind == "numRef":
        try:
            cv, kv = float(cell), float(cache_text)
            # (on 1900-02-28 XlsxWriter itself adds the phantom leap day as soon as the serial has a fraction: 59.98 > 59)
            if cv != int(cv) and (int(cv) == kv or (kv == 59.0 and int(cv) == 60)):
                # known finding F-20: a datetime category label with a time of day - the cache holds the whole day, the cell the fraction too
                w.report("c08|date-category-with-time-of-day|cache-holds-the-whole-day-cell-holds-the-fraction", detail, CLAUSES["c08-cell"])
                return
        except (TypeError, ValueError):
            pass
    if (row, col) in wb.formulas and (cache_text or "").startswith(("=", "{=")):
        # known finding F-19: XlsxWriter's write() turns a str beginning with "=" into a formula cell
        w.report("c08|string-beginning-with-equals-sign-written-as-formula", detail, CLAUSES["c08-cell"])
        return
    w.report("c08|cell-differs|%s|%s" % (kind, when), detail, CLAUSES["c08-cell"])


def _sig15(x: float) -> float:
    return float("%.15g" % x)


def _cell_eq(cache_text: str, cell, kind: str) -> bool:
    cache_text = cache_text or ""   # <c:v/> has no text
    if cell is None:
        return cache_text in ("", None)
    if kind == "str" and isinstance(cell, str):
        return cache_text == cell
    try:
        a = float(cache_text)
    except (TypeError, ValueError):
        return isinstance(cell, str) and cache_text == cell
    if isinstance(cell, str):
        try:
            b = float(cell)
        except ValueError:
            return False
    else:
        b = float(cell)
    return a == b or _sig15(a) == _sig15(b)


# ---- operations ---------------------------------------------------------------------------------------------------------------------

def _xlsx_blob(chart):
    try:
        xp = chart.part.chart_workbook.xlsx_part
        return None if xp is None else xp.blob
    except Exception:  # noqa: BLE001
        return None


def _after_data_op(w, deck, sl, sh, chart, rec, when, before_blob=None, n_before=None):
    key = "%d|%d" % (sl.slide_id, sh.shape_id)
    blob = chart.part.blob
    m = _memo(deck)["charts"].setdefault(key, {})
    exp = expected_of(rec, chart_is_1904(chart.part.blob))      # "dates as serial numbers in the chart's date system"
    if "c07" in checks(w):
        verify_xsd(w, deck, key, blob, when)
        if not list(chart.plots):
            m["dead"] = True  # known finding F-8: no plot left
            return
        verify_readings(w, chart, exp, when)
        verify_idx_order(w, blob, when)
        if before_blob is not None:
            verify_frame(w, before_blob, blob, n_before, len(rec["series"]))
    if "c08" in checks(w):
        xb = _xlsx_blob(chart)
        if xb is None:
            w.report("c08|no-embedded-workbook|%s" % when, key, CLAUSES["c08-ref"])
        else:
            verify_workbook(w, blob, xb, when)
    m["type"] = chart.chart_type.name if list(chart.plots) else None
    if m["type"] in ("PIE", "PIE_EXPLODED") and when == "after-add" and len(rec["series"]) > 1:
        rec = dict(rec, series=rec["series"][:1])  # known finding F-16: only the first series was written
    m["rec"] = rec
    m.pop("unknown", None)


def _chart_data_for(w, slot, rec, want_kind=None):
    """ChartData object for an add/replace.  With a slot, the SAME object is kept across calls (the 'rolling chart'
    idiom: build once, keep adding points/categories, re-apply); it lives outside the deck, so it survives restarts."""
    import copy as _copy
    if slot is None:
        return gens.build_chart_data(rec), rec
    store = w.scratch.setdefault("cd", {})
    ent = store.get(slot)
    kind = want_kind or rec["kind"]
    if ent is not None and ent[1]["kind"] == kind:
        w.stats.hit("c07_chartdata_object_reused")
        return ent[0], _copy.deepcopy(ent[1])
    if rec["kind"] != kind:
        return gens.build_chart_data(rec), rec
    ent = store[slot] = [gens.build_chart_data(rec), _copy.deepcopy(rec)]
    return ent[0], _copy.deepcopy(ent[1])


def g_grow(r):
    return {"slot": r.randint(0, 1), "what": r.choice(["category", "points", "points", "series", "relabel"]), "n": r.choice([1, 2, 3, 5]), "ser": r.randint(0, 4),
            "vals": [round(r.uniform(-100, 100), 2) for _ in range(12)], "label": gens._label(r, 8, False), "name": gens._label(r, 8)}


@O.op("c07.grow", "c07", weight=2.5)
@O.gen(g_grow)
def _grow(w, deck, a):
    """Add categories / points / a series to a kept ChartData object (and to its recipe, which is the model)."""
    ent = w.scratch.setdefault("cd", {}).get(a["slot"])
    if ent is None:
        raise O.Skip("no kept chart data")
    cd, rec = ent
    vals = a["vals"]
    if rec["kind"] == "cat" and isinstance(rec["categories"], dict):
        # multi-level categories: a new leaf under a group that is NOT the last one (positions of the later leaves shift), reached through
        # the kept object's own category objects; every series gets one more value
        tree = rec["categories"]["tree"]
        gi = a["ser"] % max(1, len(tree) - 1) if len(tree) > 1 else 0
        node, cat = tree[gi], cd.categories[gi]
        while node.get("sub") and node["sub"][0].get("sub"):
            node, cat = node["sub"][0], cat.sub_categories[0]
        if not node.get("sub"):
            raise O.Skip("single-level branch")
        for k in range(a["n"]):
            lab = "%s%d" % (a["label"], k)
            cat.add_sub_category(lab)
            node["sub"].append({"label": lab})
            for i, s_ in enumerate(cd):
                s_.add_data_point(vals[(i + k) % len(vals)])
                rec["series"][i]["values"].append(vals[(i + k) % len(vals)])
        w.stats.hit("c07_chartdata_grown")
        w.stats.hit("c07_multilevel_leaf_added_under_inner_group")
        return
    if rec["kind"] == "cat" and a["what"] == "relabel" and not isinstance(rec["categories"], dict) and rec.get("cat_type") == "str":
        # the categories of the kept object are ASSIGNED anew - the same number of labels, other texts (sizes do not change)
        labs = ["%s%d" % (a["label"], k) for k in range(len(rec["categories"]))]
        cd.categories = labs
        rec["categories"] = list(labs)
        w.stats.hit("c07_chartdata_grown")
        w.stats.hit("c07_chartdata_categories_reassigned_same_count")
        return
    if rec["kind"] == "cat":
        if isinstance(rec["categories"], dict) or rec.get("cat_type") != "str":
            raise O.Skip("only flat string categories are grown")
        if a["what"] == "category":
            for k in range(a["n"]):
                lab = "%s%d" % (a["label"], k)
                cd.add_category(lab)
                rec["categories"].append(lab)
                for i, s_ in enumerate(cd):
                    s_.add_data_point(vals[(i + k) % len(vals)])
                    rec["series"][i]["values"].append(vals[(i + k) % len(vals)])
        elif a["what"] == "series":
            v = [vals[k % len(vals)] for k in range(len(rec["categories"]))]
            cd.add_series(a["name"], v)
            rec["series"].append({"name": a["name"], "values": list(v)})
        else:
            raise O.Skip("points only for xy/bubble")
    else:
        sers = list(cd)
        if a["what"] == "series" or not sers:
            s_ = cd.add_series(a["name"])
            rec["series"].append({"name": a["name"], "points": []})
            sers = list(cd)
            i = len(sers) - 1
        else:
            i = a["ser"] % len(sers)
        for k in range(a["n"]):
            pt = [vals[k % len(vals)], vals[(k + 1) % len(vals)]] + ([abs(vals[(k + 2) % len(vals)])] if rec["kind"] == "bubble" else [])
            sers[i].add_data_point(*pt)
            rec["series"][i]["points"].append(pt)
    w.stats.hit("c07_chartdata_grown")


def g_data_for(r, t, big=False):
    kind = gens.chart_kind(t)
    mx_s = 30 if big else 6
    return gens.gen_chart_data(r, kind, max_series=mx_s, max_points=r.choice([8, 8, 40, 300]) if big else 8,
                               min_series=1 if t in gens.PIE_TYPES else 0)


def g_add(r):
    d = O.g_sl(r)
    t = r.choice(gens.ALL_CHART_TYPES)
    d.update({"type": t, "data": g_data_for(r, t, big=r.random() < 0.15), "x": O.emu(r), "y": O.emu(r),
              "cx": r.randint(100000, 6000000), "cy": r.randint(100000, 4000000), "via": r.choice(["shapes", "shapes", "shapes", "placeholder"]),
              "slot": r.choice([None, None, 0, 1])})
    if d["slot"] is not None and gens.chart_kind(t) == "cat" and r.random() < 0.15:
        # a chart-data object that is not usable yet (series, no categories): the call is refused (ValueError "chart data contains
        # no categories"); the caller completes the SAME object (c07.grow) and uses it again
        d["data"] = {"kind": "cat", "cat_type": "str", "categories": [], "series": [{"name": gens._label(r, 6), "values": []} for _ in range(r.choice([1, 2, 3]))]}
    return d


@O.op("c07.add_chart", "c07", weight=3.0)
@O.gen(g_add)
def _add_chart(w, deck, a):
    from pptx.enum.chart import XL_CHART_TYPE
    sl = O.nav_slide(w, deck, a)
    if sum(1 for s in O.walk_shapes(sl.shapes) if getattr(s, "has_chart", False)) >= 4:
        raise O.Skip("enough charts")
    rec = a["data"]
    try:
        cd, rec = _chart_data_for(w, a.get("slot"), rec)
        if a["type"] in gens.PIE_TYPES and not rec["series"]:
            raise O.Skip("pie needs a series")
        if a.get("via") == "placeholder":
            _sl, ph = O.nav_placeholder(w, deck, a, "insert_chart")
            sl = _sl
            gf = ph.insert_chart(getattr(XL_CHART_TYPE, a["type"]), cd)
        else:
            gf = sl.shapes.add_chart(getattr(XL_CHART_TYPE, a["type"]), a["x"], a["y"], a["cx"], a["cy"], cd)
    except O.Skip:
        raise
    except Exception as e:  # noqa: BLE001
        import traceback
        if isinstance(e, ValueError) and rec["kind"] == "cat" and rec["categories"] == [] and rec["series"] and "no categories" in str(e):
            w.stats.hit("c07_unfinished_chart_data_refused")
            return "rejected:ValueError"
        w.report("accept|add_chart-raises|%s|%s" % (type(e).__name__, _exc_site(e)), "type=%s data=%s\n%s" % (a["type"], jdump(rec)[:600], traceback.format_exc()[-900:]), CLAUSES["accept"])
        return "undoc:%s" % type(e).__name__
    _after_data_op(w, deck, sl, gf, gf.chart, rec, "after-add")
    w.stats.hit("c07_adds")
    w.stats.hit("c07_type_" + a["type"])
    if len(rec["series"]) > 24:
        w.stats.hit("c07_series_beyond_column_Z")


def _exc_site(e):
    import traceback
    tb = traceback.extract_tb(e.__traceback__)
    for fr in reversed(tb):
        if "/pptx/" in fr.filename:
            return "%s:%s" % (fr.filename.rpartition("/pptx/")[2], fr.name)
    return "?"


def _charts_of(deck):
    out = []
    for sl in O.slides_of(deck):
        for sh in O.walk_shapes(sl.shapes):
            if getattr(sh, "has_chart", False):
                out.append((sl, sh))
    return out


def g_replace(r):
    return {"chart": r.randint(0, 5), "datas": {k: gens.gen_chart_data(r, k, max_series=r.choice([6, 6, 30]), max_points=r.choice([8, 8, 60]))
                                                for k in ("cat", "xy", "bubble")}, "held": r.random() < 0.4, "slot": r.choice([None, None, 0, 1])}


def _kit_readings(kit, n_series=None):
    out = {"cats": [], "series": []}
    for p_, c_ in zip(kit["plots"], kit["cats"]):
        ent = {"len": len(c_), "iter": [str(x) for x in c_], "index": [str(c_[i]) for i in range(len(c_))], "via_plot": [str(x) for x in p_.categories],
               "names": [s_.name for s_ in p_.series]}
        try:
            ent["flat"] = [list(t) for t in c_.flattened_labels]
            ent["depth"] = c_.depth
        except Exception as e:  # noqa: BLE001  (same on kept and fresh objects: compared, not judged)
            ent["flat"] = "raises %s" % type(e).__name__
        out["cats"].append(ent)
    for s_ in kit["series"][: n_series if n_series is not None else len(kit["series"])]:
        out["series"].append([s_.name, [None if v is None else repr(v) for v in s_.values]])
    return out


def _first_diff_json(a, b, path=""):
    if type(a) is not type(b):
        return "%s: fresh=%r kept=%r" % (path, a, b)
    if isinstance(a, dict):
        for k in sorted(a):
            if a[k] != b.get(k):
                return _first_diff_json(a[k], b.get(k), path + "/" + str(k))
    if isinstance(a, list):
        if len(a) != len(b):
            return "%s: fresh has %d, kept has %d: %r vs %r" % (path, len(a), len(b), a[:6], b[:6])
        for i, (x, y) in enumerate(zip(a, b)):
            if x != y:
                return _first_diff_json(x, y, path + "/%d" % i)
    return "%s: fresh=%r kept=%r" % (path, a, b)


@O.op("c07.replace", "c07", weight=6.0)
@O.gen(g_replace)
def _replace(w, deck, a):
    cs = _charts_of(deck)
    if not cs:
        raise O.Skip("no chart")
    sl, sh = cs[a["chart"] % len(cs)]
    key = "%d|%d" % (sl.slide_id, sh.shape_id)
    m = _memo(deck)["charts"].setdefault(key, {})
    if m.get("dead"):
        raise O.Skip("chart without plots (F-8)")
    if a.get("held"):
        chart = deck.handles.setdefault(("c07chart", key), sh.chart)
    else:
        chart = sh.chart
    try:
        ct = chart.chart_type.name
    except Exception:  # noqa: BLE001
        raise O.Skip("chart type unreadable")
    if ct not in gens.ALL_CHART_TYPES:
        raise O.Skip("chart type not writable")
    if "xsd_base" not in m:
        m["xsd_base"] = xsd.validate_blob(chart.part.blob)[1] if "rec" not in m else []
    rec = a["datas"][gens.chart_kind(ct)]
    cd_obj, rec = _chart_data_for(w, a.get("slot"), rec, want_kind=gens.chart_kind(ct))
    if ct in gens.PIE_TYPES and not rec["series"]:
        raise O.Skip("pie needs a series")
    kit = None
    if a.get("held"):
        # the caller keeps the plot / categories / series objects it looked at, and looks at them again after the replacement
        kit = deck.handles.get(("c07kit", key))
        if kit is None:
            plots_ = list(chart.plots)
            kit = deck.handles[("c07kit", key)] = {"plots": plots_, "cats": [p_.categories for p_ in plots_], "series": [s_ for p_ in plots_ for s_ in p_.series]}
        _kit_readings(kit)
    before = chart.part.blob
    n_before = len(list(refpkg.parse(before).iter(C + "ser")))
    if n_before == 0:
        # known finding F-10: replace_data cannot add series to a chart that has none (AttributeError)
        pass
    try:
        chart.replace_data(cd_obj)
    except Exception as e:  # noqa: BLE001
        import traceback
        if isinstance(e, ValueError) and rec["kind"] == "cat" and rec["categories"] == [] and rec["series"] and "no categories" in str(e):
            w.stats.hit("c07_unfinished_chart_data_refused")
            if chart.part.blob != before:
                # the statement says nothing about a refused replacement: what the chart holds now is simply not known to the model until
                # the next replacement that is accepted
                m["unknown"] = True
                deck.handles.pop(("c07kit", key), None)     # objects kept for series the refused call removed stand for nothing
                w.stats.hit("c07_refused_replace_left_chart_changed")
            return "rejected:ValueError"
        site = _exc_site(e)
        sig = "accept|replace_data-raises|%s|%s" % (type(e).__name__, site)
        if n_before == 0 and rec["series"]:
            sig = "accept|replace_data-raises|%s|chart-had-no-series-to-clone" % type(e).__name__
        w.report(sig, "type=%s data=%s\n%s" % (ct, jdump(rec)[:600], traceback.format_exc()[-900:]), CLAUSES["accept"])
        return "undoc:%s" % type(e).__name__
    _after_data_op(w, deck, sl, sh, chart, rec, "after-replace", before_blob=before, n_before=n_before)
    if kit is None and ("c07kit", key) in deck.handles:
        if sum(len(list(p_.series)) for p_ in chart.plots) < len(deck.handles[("c07kit", key)]["series"]):
            del deck.handles[("c07kit", key)]       # (see below)
    if kit is not None:
        fresh_plots = list(chart.plots)
        if len(fresh_plots) == len(kit["plots"]) and [type(p_).__name__ for p_ in fresh_plots] == [type(p_).__name__ for p_ in kit["plots"]]:
            fresh = {"plots": fresh_plots, "cats": [p_.categories for p_ in fresh_plots], "series": [s_ for p_ in fresh_plots for s_ in p_.series]}
            n_keep = min(len(kit["series"]), len(fresh["series"]))
            try:
                got = _kit_readings(kit, n_keep)
            except Exception as e:  # noqa: BLE001
                got = "raises %s" % type(e).__name__
            want = _kit_readings(fresh, n_keep)
            if got != want:
                w.report("readings|kept-plot-objects-differ-from-fresh-ones|after-replace", _first_diff_json(want, got), CLAUSES["cats"])
            w.stats.hit("c07_kept_plot_objects_compared")
            if len(fresh["series"]) < len(kit["series"]):
                deck.handles[("c07kit", key)] = fresh   # surplus series were removed: objects kept for them now stand for nothing
        else:
            deck.handles.pop(("c07kit", key), None)
    w.stats.hit("c07_replaces")
    if len(rec["series"]) < n_before:
        w.stats.hit("c07_replace_fewer_series")
    elif len(rec["series"]) > n_before:
        w.stats.hit("c07_replace_more_series")


@O.op("c07.format", "c07", weight=2.0)
@O.gen(lambda r: dict(chart=r.randint(0, 5), ser=r.randint(0, 5), rgb="%06X" % r.randint(0, 0xFFFFFF), what=r.choice(["fill", "line", "title", "legend", "gap"])))
def _format(w, deck, a):
    """Give surviving series / the chart some formatting so that the frame check has something to protect."""
    from pptx.dml.color import RGBColor
    from pptx.util import Pt
    cs = _charts_of(deck)
    if not cs:
        raise O.Skip("no chart")
    sl, sh = cs[a["chart"] % len(cs)]
    if _memo(deck)["charts"].get("%d|%d" % (sl.slide_id, sh.shape_id), {}).get("dead"):
        raise O.Skip("dead chart")
    ch = sh.chart
    plots = list(ch.plots)
    if not plots:
        raise O.Skip("no plots")
    sers = [s for p in plots for s in p.series]
    if a["what"] in ("fill", "line"):
        if not sers:
            raise O.Skip("no series")
        s = sers[a["ser"] % len(sers)]
        if a["what"] == "fill":
            s.format.fill.solid()
            s.format.fill.fore_color.rgb = RGBColor.from_string(a["rgb"])
        else:
            s.format.line.width = Pt(1 + a["ser"])
    elif a["what"] == "title":
        ch.has_title = True
        ch.chart_title.text_frame.text = "T" + a["rgb"]
    elif a["what"] == "legend":
        ch.has_legend = True
    else:
        if type(plots[0]).__name__ != "BarPlot":
            raise O.Skip("not a bar plot")
        plots[0].gap_width = 50 + a["ser"]


class ChartOracle(Oracle):
    name = "c07"

    def _verify(self, w, deck, prs, when):
        for key, m in sorted(_memo(deck)["charts"].items()):
            if "rec" not in m or m.get("dead") or m.get("unknown"):
                continue
            sid, shid = map(int, key.split("|"))
            sl = prs.slides.get(sid)
            sh = None
            if sl is not None:
                for s in O.walk_shapes(sl.shapes):
                    if s.shape_id == shid and getattr(s, "has_chart", False):
                        sh = s
            if sh is None:
                w.report("persist|chart-gone|%s" % when, key, CLAUSES["persist"])
                continue
            chart = sh.chart
            if "c07" in checks(w):
                verify_xsd(w, deck, key, chart.part.blob, when)
                verify_readings(w, chart, expected_of(m["rec"], chart_is_1904(chart.part.blob)), when)
            if "c08" in checks(w):
                xb = _xlsx_blob(chart)
                if xb is None:
                    w.report("c08|no-embedded-workbook|%s" % when, key, CLAUSES["c08-ref"])
                else:
                    verify_workbook(w, chart.part.blob, xb, when)

    def on_checkpoint(self, w, deck, image, ev):
        import pptx
        from ..disk import SimSource
        self._verify(w, deck, pptx.Presentation(SimSource(image)), "reopened-at-checkpoint")

    def on_restart(self, w, deck, ev):
        self._verify(w, deck, deck.prs, "after-restart")
        w.stats.hit("c07_restart_checks")


CHART_DECKS = ["default.pptx", "default.pptx", "default.pptx", "f-cht-charts.pptx", "f-cht-replace-data.pptx", "f-cht-series.pptx",
               "f-cht-chart-type.pptx", "f-cht-plot-props.pptx", "f-cht-category-access.pptx", "f-shp-access-chart.pptx",
               "f-ph-unpopulated-placeholders.pptx", "f-cht-point-props.pptx", "f-cht-datalabels.pptx", "f-cht-axis-props.pptx"]


def plan(tier):
    if tier == "quick":
        return {"runs": 1200, "budget_s": 75, "chunk": 8}
    return {"runs": 30000, "budget_s": 780, "chunk": 12}


def gen_trace(seed: int, tier: str, which=("c07",)) -> dict:
    S = Streams(seed)
    r = S("config")
    thorough = tier == "thorough"
    n = r.randint(6, 22) if not thorough else r.randint(12, 60)
    events, sw = common.gen_history(seed, fault_rate=common.fault_arm(seed), n_events=n, families=["c07"], always=("c07",), ckpt=0.05, reopen=0.07, restart=0.04,
                                    observe=0.02, jump=0.03, fork=0.03, warmup=False)
    common.rewritten_between_sessions(seed, events, hows=("bool_words",))
    rs = S("start")
    start = {"deck": rs.choice(CHART_DECKS), "form": rs.choice(["stream", "path", "dir"])}
    if start["deck"] != "default.pptx" and rs.random() < 0.5:
        # the deck's charts as PowerPoint leaves them after edits python-pptx never makes (series numbers out of document order, the 1904
        # date system), or with booleans spelled as words
        start["xform"] = [rs.choice([{"kind": "rewrite_charts", "how": "reverse_idx"}, {"kind": "rewrite_charts", "how": "date1904"},
                                     {"kind": "rewrite_charts", "how": "shift_order", "seed": rs.randint(0, 2)}, {"kind": "rewrite_charts", "how": "reverse_repeated"},
                                     {"kind": "rewrite_slides", "how": "bool_words"}])]
    pre = [{"op": "add_slide", "layout": 6, "dt": 1.0}]
    rp = S("pre")
    for _ in range(rp.choice([1, 1, 2])):
        e = O.gen_op_event(rp, "c07.add_chart")
        e["via"] = "shapes"
        e["dt"] = 1.0
        pre.append(e)
    if thorough:
        rb = S("big")
        for e in pre + events:
            if e["op"] == "c07.add_chart" and rb.random() < 0.1:
                e["data"] = gens.gen_chart_data(rb, gens.chart_kind(e["type"]), max_series=60, max_points=rb.choice([8, 100, 400]),
                                                min_series=1 if e["type"] in gens.PIE_TYPES else 0)
    return {"property": "C07" if which == ("c07",) else "C08", "seed": seed, "tier": tier,
            "config": {"chart_checks": list(which), "max_slides": 5}, "start": [start], "events": pre + events}


def make_oracles(trace):
    xsd.schema("ooxml/dml-chart.xsd")
    return [ChartOracle()]


def nontrivial(trace, res):
    st = res["stats"]
    return (st.get("c07_adds", 0) >= 1 and st.get("c07_replaces", 0) >= 1) or st.get("c07_adds", 0) >= 3


def _simple(kind, ns, npts, names=None):
    if kind == "cat":
        return {"kind": "cat", "cat_type": "str", "categories": ["c%d" % i for i in range(npts)],
                "series": [{"name": "s%d" % i, "values": [float(i + j) for j in range(npts)]} for i in range(ns)]}
    return {"kind": kind, "series": [{"name": "s%d" % i, "points": [[j, i + j] + ([1 + j] if kind == "bubble" else []) for j in range(npts[i % len(npts)])]} for i in range(ns)]}


def pinned_traces(tier, which=("c07",)):
    out = []
    pid = "C07" if which == ("c07",) else "C08"
    box = {"slide": 0, "x": 0, "y": 0, "cx": 3000000, "cy": 2000000, "via": "shapes"}
    # every writable chart type: add, format, replace with fewer / more series, restart
    for t in gens.ALL_CHART_TYPES:
        kind = gens.chart_kind(t)
        d0 = _simple(kind, 3, 4) if kind == "cat" else _simple(kind, 3, [3, 1, 4])
        d1 = _simple(kind, 2, 2) if kind == "cat" else _simple(kind, 2, [2, 5])
        d2 = _simple(kind, 5, 6) if kind == "cat" else _simple(kind, 5, [1, 0, 3])
        evs = [{"op": "add_slide", "layout": 6}, dict(box, op="c07.add_chart", type=t, data=d0),
               {"op": "c07.format", "chart": 0, "ser": 0, "rgb": "FF0000", "what": "fill"}, {"op": "c07.format", "chart": 0, "ser": 1, "rgb": "00FF00", "what": "line"},
               {"op": "c07.format", "chart": 0, "ser": 0, "rgb": "00FF00", "what": "title"},
               {"op": "c07.replace", "chart": 0, "datas": {kind: d1}}, {"op": "reopen", "sink": "seekable", "form": "stream"},
               {"op": "c07.replace", "chart": 0, "datas": {kind: d2}, "held": True}, {"op": "checkpoint", "sink": "seekable"}, {"op": "restart"}]
        out.append({"property": pid, "seed": "type-%s" % t, "tier": "pinned", "config": {"pinned": True, "chart_checks": list(which)},
                    "start": [{"deck": "default"}], "events": evs})
    # column boundaries: 25, 26, 27 series; replace 27 -> 2 -> 30; XY series of lengths 3,1,4
    for ns in (25, 26, 27):
        evs = [{"op": "add_slide", "layout": 6}, dict(box, op="c07.add_chart", type="LINE", data=_simple("cat", ns, 2)),
               {"op": "c07.replace", "chart": 0, "datas": {"cat": _simple("cat", 2, 3)}}, {"op": "c07.replace", "chart": 0, "datas": {"cat": _simple("cat", 30, 1)}},
               {"op": "checkpoint", "sink": "seekable"}, {"op": "restart"}]
        out.append({"property": pid, "seed": "columns-%d" % ns, "tier": "pinned", "config": {"pinned": True, "chart_checks": list(which)},
                    "start": [{"deck": "default"}], "events": evs})
    # date systems / leap-year bug, multi-level, numeric categories, None values
    specials = [
        {"kind": "cat", "cat_type": "date", "categories": [{"date": "1900-02-28"}, {"date": "1900-03-01"}, {"date": "2016-12-27"}], "series": [{"name": "d", "values": [1, None, 3]}]},
        {"kind": "cat", "cat_type": "num", "categories": [1, 2.5, -3], "series": [{"name": "n", "values": [None, None, None]}, {"name": "m", "values": [1.5, 2, 0.1 + 0.2]}]},
        {"kind": "cat", "cat_type": "multi", "categories": {"tree": [{"label": "A", "sub": [{"label": "a1", "sub": [{"label": "x"}, {"label": "y"}]}, {"label": "a2", "sub": [{"label": "z"}]}]},
                                                                      {"label": "B", "sub": [{"label": "b1", "sub": [{"label": "w"}]}]}]},
         "series": [{"name": "ml", "values": [1, 2, 3, 4]}, {"name": "ml2", "values": [4, None, 2, 1]}]},
        {"kind": "cat", "cat_type": "str", "categories": ["only"], "series": []},
    ]
    for i, d in enumerate(specials):
        evs = [{"op": "add_slide", "layout": 6}, dict(box, op="c07.add_chart", type="BAR_CLUSTERED", data=d),
               {"op": "reopen", "sink": "seekable", "form": "stream"}, {"op": "c07.replace", "chart": 0, "datas": {"cat": specials[(i + 1) % 3]}},
               {"op": "checkpoint", "sink": "seekable"}, {"op": "restart"}]
        out.append({"property": pid, "seed": "special-%d" % i, "tier": "pinned", "config": {"pinned": True, "chart_checks": list(which)},
                    "start": [{"deck": "default"}], "events": evs})
    # known findings (re-confirmed on every run): F-8 replace with no series, F-10 replace on a series-less chart,
    # F-16 multi-series pie, F-19 label beginning with "="
    kf = [
        ("F-8", [dict(box, op="c07.add_chart", type="BAR_CLUSTERED", data=_simple("cat", 2, 2)),
                 {"op": "c07.replace", "chart": 0, "datas": {"cat": {"kind": "cat", "cat_type": "str", "categories": ["a"], "series": []}}}]),
        ("F-10", [dict(box, op="c07.add_chart", type="LINE", data={"kind": "cat", "cat_type": "str", "categories": ["a"], "series": []}),
                  {"op": "c07.replace", "chart": 0, "datas": {"cat": _simple("cat", 2, 2)}}]),
        ("F-16", [dict(box, op="c07.add_chart", type="PIE", data=_simple("cat", 2, 3)), {"op": "checkpoint", "sink": "seekable"}]),
        ("F-19", [dict(box, op="c07.add_chart", type="COLUMN_CLUSTERED",
                       data={"kind": "cat", "cat_type": "str", "categories": ["=1+1", "b"], "series": [{"name": "=SUM(A1)", "values": [1, 2]}]})]),
    ]
    if pid == "C08":
        kf.append(("F-26", [dict(box, op="c07.add_chart", type="LINE", data={"kind": "cat", "cat_type": "date", "categories": [
            {"date": "2016-12-27", "time": "23:30:00"}, {"date": "2016-12-28", "time": "00:00:00"}], "series": [{"name": "s", "values": [1, 2]}]})]))
    if pid == "C08":
        kf28 = [{"op": "c07.replace", "chart": 0, "datas": {"cat": {"kind": "cat", "cat_type": "date", "categories": [{"date": "2016-12-27"}, {"date": "2016-12-28"}],
                                                                 "series": [{"name": "s", "values": [1, 2]}]},
                                                           "xy": _simple("xy", 1, [2]), "bubble": _simple("bubble", 1, [2])}}]
        out.append({"property": pid, "seed": "known-F-28", "tier": "pinned", "config": {"pinned": True, "chart_checks": list(which)},
                    "start": [{"deck": "f-cht-replace-data.pptx", "xform": [{"kind": "rewrite_charts", "how": "date1904"}]}], "events": kf28})
    for name, evs in kf:
        out.append({"property": pid, "seed": "known-%s" % name, "tier": "pinned", "config": {"pinned": True, "chart_checks": list(which)},
                    "start": [{"deck": "default"}], "events": [{"op": "add_slide", "layout": 6}] + evs})
    # the "rolling chart" idiom: one ChartData object, grown between uses
    for t, kind in (("LINE", "cat"), ("BAR_CLUSTERED", "cat"), ("XY_SCATTER", "xy"), ("BUBBLE", "bubble")):
        d0 = _simple(kind, 3, 3) if kind == "cat" else _simple(kind, 3, [2, 3, 1])
        g = {"vals": [1.5, -2.0, 3.25, 4.0, 5.5, 6.0, 7.0, 8.0, 9.0, 10.0, 11.0, 12.0], "label": "L", "name": "new", "ser": 0}
        evs = [{"op": "add_slide", "layout": 6}, dict(box, op="c07.add_chart", type=t, data=d0, slot=0),
               dict(g, op="c07.grow", slot=0, what="category" if kind == "cat" else "points", n=2),
               {"op": "c07.replace", "chart": 0, "datas": {kind: d0}, "slot": 0},
               dict(g, op="c07.grow", slot=0, what="points" if kind != "cat" else "category", n=3, ser=1),
               dict(g, op="c07.grow", slot=0, what="series", n=2),
               {"op": "reopen", "sink": "seekable", "form": "stream"},
               {"op": "c07.replace", "chart": 0, "datas": {kind: d0}, "slot": 0},
               dict(box, op="c07.add_chart", type=t, data=d0, slot=0), {"op": "checkpoint", "sink": "seekable"}, {"op": "restart"}]
        out.append({"property": pid, "seed": "rolling-%s" % t, "tier": "pinned", "config": {"pinned": True, "chart_checks": list(which)},
                    "start": [{"deck": "default"}], "events": evs})
    # the kept object's categories re-assigned (same count) between uses
    for t in ("LINE", "BAR_CLUSTERED"):
        d0 = _simple("cat", 2, 4)
        g2 = {"vals": [1.5, -2.0, 3.25, 4.0], "label": "R", "name": "new", "ser": 0, "n": 1}
        evs = [{"op": "add_slide", "layout": 6}, dict(box, op="c07.add_chart", type=t, data=d0, slot=0), dict(g2, op="c07.grow", slot=0, what="relabel"),
               {"op": "c07.replace", "chart": 0, "datas": {"cat": d0}, "slot": 0}, dict(g2, op="c07.grow", slot=0, what="relabel", label="S"),
               dict(box, op="c07.add_chart", type=t, data=d0, slot=0), {"op": "checkpoint", "sink": "seekable"}, {"op": "restart"}]
        out.append({"property": pid, "seed": "rolling-relabel-%s" % t, "tier": "pinned", "config": {"pinned": True, "chart_checks": list(which)},
                    "start": [{"deck": "default"}], "events": evs})
    if pid == "C08":
        # one series of more than 16384 points (a workbook row count an implementation may treat specially)
        big = {"kind": "cat", "cat_type": "num", "categories": list(range(16390)), "series": [{"name": "long", "values": [float(i % 97) for i in range(16390)]},
                                                                                            {"name": "second", "values": [float(i % 13) for i in range(16390)]}]}
        out.append({"property": pid, "seed": "series-longer-than-16384", "tier": "pinned", "config": {"pinned": True, "chart_checks": list(which)}, "start": [{"deck": "default"}],
                    "events": [{"op": "add_slide", "layout": 6}, dict(box, op="c07.add_chart", type="LINE", data=big), {"op": "checkpoint", "sink": "seekable"}]})
    # multi-level chart data kept and grown under a non-last group between uses
    ml = {"kind": "cat", "cat_type": "multi", "categories": {"tree": [{"label": "G1", "sub": [{"label": "a"}, {"label": "b"}]}, {"label": "G2", "sub": [{"label": "c"}]},
                                                                       {"label": "G3", "sub": [{"label": "d"}, {"label": "e"}]}]},
          "series": [{"name": "s1", "values": [1.0, 2.0, 3.0, 4.0, 5.0]}, {"name": "s2", "values": [5.0, 4.0, 3.0, 2.0, 1.0]}]}
    g = {"vals": [1.5, -2.0, 3.25, 4.0, 5.5, 6.0, 7.0, 8.0, 9.0, 10.0, 11.0, 12.0], "label": "L", "name": "new"}
    for t in ("BAR_CLUSTERED", "LINE"):
        evs = [{"op": "add_slide", "layout": 6}, dict(box, op="c07.add_chart", type=t, data=ml, slot=0),
               dict(g, op="c07.grow", slot=0, what="category", n=1, ser=0), {"op": "c07.replace", "chart": 0, "datas": {"cat": ml}, "slot": 0},
               dict(g, op="c07.grow", slot=0, what="category", n=2, ser=1), dict(box, op="c07.add_chart", type=t, data=ml, slot=0),
               {"op": "c07.replace", "chart": 0, "datas": {"cat": ml}, "slot": 0}, {"op": "checkpoint", "sink": "seekable"}, {"op": "restart"}]
        out.append({"property": pid, "seed": "rolling-multilevel-%s" % t, "tier": "pinned", "config": {"pinned": True, "chart_checks": list(which)},
                    "start": [{"deck": "default"}], "events": evs})
    # an unfinished chart-data object is refused, completed by the caller and used again (same object)
    for t in ("LINE", "BAR_CLUSTERED", "PIE", "AREA_STACKED", "RADAR"):
        d0 = {"kind": "cat", "cat_type": "str", "categories": [], "series": [{"name": "s1", "values": []}, {"name": "s2", "values": []}]}
        g = {"vals": [1.5, -2.0, 3.25, 4.0, 5.5, 6.0, 7.0, 8.0, 9.0, 10.0, 11.0, 12.0], "label": "L", "name": "new", "ser": 0}
        evs = [{"op": "add_slide", "layout": 6}, dict(box, op="c07.add_chart", type=t, data=d0, slot=0),
               dict(g, op="c07.grow", slot=0, what="category", n=3),
               dict(box, op="c07.add_chart", type=t, data=d0, slot=0),
               dict(g, op="c07.grow", slot=0, what="series", n=1),
               {"op": "c07.replace", "chart": 0, "datas": {"cat": d0}, "slot": 0},
               {"op": "checkpoint", "sink": "seekable"}, {"op": "restart"}]
        out.append({"property": pid, "seed": "refused-then-completed-%s" % t, "tier": "pinned", "config": {"pinned": True, "chart_checks": list(which)},
                    "start": [{"deck": "default"}], "events": evs})
    # PowerPoint-authored corpus charts: replace_data on each
    for deck in ("f-cht-replace-data.pptx", "f-cht-charts.pptx", "f-cht-series.pptx", "f-cht-chart-type.pptx"):
        evs = []
        for k in range(8):
            evs.append({"op": "c07.replace", "chart": k, "held": True, "datas": {"cat": _simple("cat", 3, 3), "xy": _simple("xy", 2, [2, 3]), "bubble": _simple("bubble", 2, [2, 2])}})
        for k in range(8):      # second round through the objects kept in the first: more categories, more series, other labels
            evs.append({"op": "c07.replace", "chart": k, "held": True, "datas": {"cat": _simple("cat", 4, 5), "xy": _simple("xy", 3, [4, 1, 2]), "bubble": _simple("bubble", 3, [3, 3, 1])}})
        evs += [{"op": "checkpoint", "sink": "seekable"}, {"op": "restart"}]
        out.append({"property": pid, "seed": "corpus-%s" % deck, "tier": "pinned", "config": {"pinned": True, "chart_checks": list(which)},
                    "start": [{"deck": deck}], "events": evs})
        dates = {"kind": "cat", "cat_type": "date", "categories": [{"date": "1903-12-31"}, {"date": "1904-01-01"}, {"date": "2016-12-27"}, {"date": "2017-07-01", "time": "00:00:00"}],
                 "series": [{"name": "s%d" % i, "values": [1.0 + i, 2.0, 3.0, 4.0]} for i in range(7)]}
        for how in ("reverse_idx", "date1904", "shift_order"):
            evs2 = [{"op": "c07.replace", "chart": k, "held": k % 2 == 0, "datas": {"cat": dates, "xy": _simple("xy", 7, [2, 3]), "bubble": _simple("bubble", 7, [2, 2])}} for k in range(12)]
            evs2 += [{"op": "checkpoint", "sink": "seekable"}, {"op": "restart"}]
            out.append({"property": pid, "seed": "corpus-%s-%s" % (deck, how), "tier": "pinned", "config": {"pinned": True, "chart_checks": list(which)},
                        "start": [{"deck": deck, "xform": [{"kind": "rewrite_charts", "how": how}]}], "events": evs2})
    return out
