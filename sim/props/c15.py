"""C15 - images are stored once, byte-exact, with the type and size of the actual image."""
from __future__ import annotations

import collections
import hashlib
import io
import os

from .. import gens, refpkg
from .. import ops as O
from ..engine import Oracle
from ..rng import Streams
from . import common

ID = "C15"
LEVEL = "exploration"
RULE = ("seeded histories of picture additions from path (misleading extensions) and from streams (seeded initial "
        "position), as pictures, picture-placeholder fills, movie poster frames and OLE icons, generated PNG/JPEG/GIF/BMP/"
        "TIFF images of sizes 1..64px and DPI absent / integral / fractional / 0 / huge / non-square, same bytes repeated and "
        "interleaved with different bytes across slides, with checkpoints and restarts (SHA1 index rebuilt from loaded "
        "parts) and source faults (EIO, premature EOF, missing path); oracle = media-part multiset model keyed by SHA1 "
        "(live package and saved zip), byte equality, extension/content type of the actual format, size model; "
        "non-trivial = >=3 successful additions with >=1 repeated image; distinct = distinct event-log digest")
ASSUMPTIONS = [
    "input streams are seekable and honour read() fully",
    "the image's DPI is what Pillow (trusted dependency) reports for the bytes; 'implausible' = outside 1..2048 either "
    "before or after rounding to an integer (both readings accepted at the boundary)",
    "native size is compared to within 1 EMU per axis; with one dimension given the other must be within 1 EMU of the "
    "aspect-preserving value computed from the native size",
    "images already stored more than once in a start deck are not blamed on later additions",
]
CLAUSES = {
    "once": "Adding the same image bytes any number of times, on any slides, from a path or a stream, stores one media part, "
            "while different bytes get different parts with different names",
    "bytes": "the stored bytes and the bytes returned by picture.image.blob equal the input",
    "type": "The part's extension and content type are those of the actual image format whatever the file was called",
    "size": "a picture added without a size has the image's pixel size at its DPI (72 when absent or implausible), and with "
            "one dimension given the other preserves the aspect ratio to within rounding",
    "fault": "(after an injected read fault) the call fails and no picture, media part or relationship appears in the XML; "
             "a later healthy add of the same bytes still dedups",
}


def _memo(deck):
    return deck.memo.setdefault("c15", {"shas": {}, "base": {}})


def _image_parts(prs):
    out = []
    for part in prs.part.package.iter_parts():
        if type(part).__name__ == "ImagePart":
            out.append(part)
    return out


def _dpi_candidates(raw):
    """Acceptable normalised DPI values for one axis under the documented rule."""
    try:
        f = float(raw)
    except (TypeError, ValueError):
        return {72}
    out = set()
    r = int(round(f))
    out.add(r if 1 <= r <= 2048 else 72)           # rule applied after rounding (implementation order)
    if not (1 <= f <= 2048):
        out.add(72)                                  # rule applied to the raw value (docstring wording)
    return out


def _native_sizes(data: bytes):
    from PIL import Image
    im = Image.open(io.BytesIO(data))
    wpx, hpx = im.size
    dpi = im.info.get("dpi")
    if isinstance(dpi, tuple):
        dx, dy = _dpi_candidates(dpi[0]), _dpi_candidates(dpi[1])
    else:
        dx = dy = {72}
    return [(914400.0 * wpx / a, 914400.0 * hpx / b) for a in dx for b in dy], (wpx, hpx), dpi


def verify_store(w, deck, prs, when):
    m = _memo(deck)
    parts = _image_parts(prs)
    names = collections.Counter(str(p.partname) for p in parts)
    dup = [n for n, c in names.items() if c > 1]
    if dup:
        w.report("once|duplicate-image-partname|%s" % when, str(dup[:3]), CLAUSES["once"])
    by_sha = collections.defaultdict(list)
    for p in parts:
        by_sha[hashlib.sha1(p.blob).hexdigest()].append(p)
    for sha, info in sorted(m["shas"].items()):
        ps = by_sha.get(sha, [])
        allowed = max(1, m["base"].get(sha, 0))
        if len(ps) > allowed:
            w.report("once|same-bytes-stored-%s|%s" % ("twice" if len(ps) == 2 else "many", when),
                     "sha=%s parts=%s" % (sha[:10], [str(p.partname) for p in ps]), CLAUSES["once"])
        for p in ps:
            if p.partname.ext != info["ext"] and m["base"].get(sha, 0) == 0 and sha not in m.get("pre", {}):
                w.report("type|partname-ext|%s" % when, "%s expected .%s" % (p.partname, info["ext"]), CLAUSES["type"])
            if p.content_type != info["ct"] and m["base"].get(sha, 0) == 0 and sha not in m.get("pre", {}):
                w.report("type|content-type|%s" % when, "%s is %s expected %s" % (p.partname, p.content_type, info["ct"]), CLAUSES["type"])
    w.stats.hit("c15_store_verified")


def _start_media(deck):
    """Images the start deck already holds (on slides, layouts, masters, notes master), readable by Pillow: (name, bytes, format)."""
    import io
    import zipfile
    from PIL import Image
    out = []
    try:
        z = zipfile.ZipFile(io.BytesIO(deck.start_image))
    except Exception:  # noqa: BLE001
        return out
    for n in sorted(z.namelist()):
        if n.startswith("ppt/media/"):
            b = z.read(n)
            try:
                fmt = Image.open(io.BytesIO(b)).format
            except Exception:  # noqa: BLE001
                continue
            if fmt in gens.IMG_EXT:
                out.append((n, b, fmt))
    return out


def _bytes_for(deck, rec):
    if "existing_hex" in rec:
        return bytes.fromhex(rec["existing_hex"])      # self-contained: a forked deck starts from another image
    return gens.image_bytes(rec)


def g_add(r):
    d = O.g_sl(r)
    d.update({"img": gens.gen_image_recipe(r, small=False), "src": O.g_src(r), "how": r.choice(["picture"] * 5 + ["poster", "icon", "placeholder"]),
              "size": r.choice(["none", "none", "none", "w", "h", "both"]), "x": O.emu(r), "y": O.emu(r),
              "cx": r.randint(1, 5000000), "cy": r.randint(1, 5000000), "reuse": r.random() < 0.5})
    if r.random() < 0.12:
        d["existing"] = r.randint(0, 7)    # the bytes of an image the deck already holds somewhere (a layout's logo, another slide's picture)
    return d


@O.op("c15.add", "c15", weight=8.0)
@O.gen(g_add)
def _add(w, deck, a):
    from pptx.enum.shapes import PROG_ID
    m = _memo(deck)
    rec = a["img"]
    if a.get("reuse") and m["shas"]:
        # repeat an image already added in this history (same bytes, possibly another source form / file name)
        keys = sorted(m["shas"])
        rec = m["shas"][keys[a["cx"] % len(keys)]]["recipe"]
    if a.get("existing") is not None and not a.get("reuse"):
        med = _start_media(deck)
        if med:
            rec = {"existing_hex": med[a["existing"] % len(med)][1].hex(), "fmt": med[a["existing"] % len(med)][2]}
            w.stats.hit("c15_added_bytes_the_deck_already_holds")
    data = _bytes_for(deck, rec)
    sha = hashlib.sha1(data).hexdigest()
    fault = (a.get("src") or {}).get("fault")
    sl = O.nav_slide(w, deck, a)
    how = a["how"]
    n_shapes = len(list(sl.shapes))
    n_parts = len(_image_parts(deck.prs))
    f, tmp = O._source_arg(w, data, a, fname="pic.img")
    pic = None
    try:
        try:
            if how == "picture":
                cx = a["cx"] if a["size"] in ("w", "both") else None
                cy = a["cy"] if a["size"] in ("h", "both") else None
                pic = sl.shapes.add_picture(f, a["x"], a["y"], cx, cy)
            elif how == "poster":
                from ..disk import SimSource
                sl.shapes.add_movie(SimSource(b"\x00\x01video"), a["x"], a["y"], a["cx"], a["cy"], poster_frame_image=f)
            elif how == "icon":
                from ..disk import SimSource
                sl.shapes.add_ole_object(SimSource(b"ole-bytes"), PROG_ID.XLSX, a["x"], a["y"], icon_file=f)
            else:
                _sl, ph = O.nav_placeholder(w, deck, a, "insert_picture")
                sl = _sl
                n_shapes = len(list(sl.shapes))
                pic = ph.insert_picture(f)
        finally:
            if tmp and os.path.exists(tmp):
                os.unlink(tmp)
    except O.Skip:
        raise
    except Exception as e:  # noqa: BLE001
        if not fault:
            raise
        # injected source fault surfaced: nothing half-added may be visible
        truncated_ok = False
        if len(list(sl.shapes)) != n_shapes and how != "placeholder":
            w.report("fault|half-added-shape|%s" % how, "fault=%r exc=%r" % (fault, e), CLAUSES["fault"])
        verify_store(w, deck, deck.prs, "after-faulted-add")
        w.stats.hit("c15_faulted_adds")
        return "iofault:%s" % type(e).__name__
    if fault and fault.get("kind") == "eof" and fault["at"] < len(data):
        # a truncated file that Pillow could still identify: the stored image IS the truncated bytes
        data = data[: fault["at"]]
        sha = hashlib.sha1(data).hexdigest()
        w.stats.hit("c15_truncated_image_accepted")
    fmt = rec["fmt"]
    m["shas"][sha] = {"ext": gens.IMG_EXT[fmt], "ct": gens.IMG_CT[fmt], "recipe": rec}
    if pic is not None:
        blob = pic.image.blob
        if blob != data:
            w.report("bytes|image-blob-differs|%s" % how, "len in=%d out=%d" % (len(data), len(blob)), CLAUSES["bytes"])
        if pic.image.content_type != gens.IMG_CT[fmt] or pic.image.ext != gens.IMG_EXT[fmt]:
            w.report("type|image-reports|%s" % fmt, "ext=%s ct=%s" % (pic.image.ext, pic.image.content_type), CLAUSES["type"])
        if how == "picture":
            natives, px, dpi = _native_sizes(data)
            got = (int(pic.width), int(pic.height))
            if a["size"] == "none":
                if not any(abs(got[0] - nx) <= 1.0 and abs(got[1] - ny) <= 1.0 for nx, ny in natives):
                    w.report("size|native|%s" % _dpi_class(dpi), "px=%r dpi=%r got=%r acceptable~%r" % (px, dpi, got, natives[:3]), CLAUSES["size"])
            elif a["size"] == "w":
                if got[0] != a["cx"] or not any(abs(got[1] - int(ny) * (a["cx"] / float(int(nx)))) <= 1.0 for nx, ny in natives if int(nx) > 0):
                    w.report("size|aspect-from-width|%s" % _dpi_class(dpi), "px=%r dpi=%r given cx=%d got=%r" % (px, dpi, a["cx"], got), CLAUSES["size"])
            elif a["size"] == "h":
                if got[1] != a["cy"] or not any(abs(got[0] - int(nx) * (a["cy"] / float(int(ny)))) <= 1.0 for nx, ny in natives if int(ny) > 0):
                    w.report("size|aspect-from-height|%s" % _dpi_class(dpi), "px=%r dpi=%r given cy=%d got=%r" % (px, dpi, a["cy"], got), CLAUSES["size"])
            else:
                if got != (a["cx"], a["cy"]):
                    w.report("size|both-given", "given=%r got=%r" % ((a["cx"], a["cy"]), got), CLAUSES["size"])
            w.stats.hit("c15_size_checks")
    verify_store(w, deck, deck.prs, "after-add")
    w.stats.hit("c15_adds")
    w.stats.hit("c15_add_%s" % how)
    if a.get("reuse"):
        w.stats.hit("c15_repeated_bytes")
    if len(_image_parts(deck.prs)) == n_parts:
        w.probes.hit("image_dedup_hit")
        if deck.saves and not deck.memo.get("c15_live_since_open"):
            pass


def _dpi_class(dpi):
    if not isinstance(dpi, tuple):
        return "dpi-absent"
    try:
        a, b = float(dpi[0]), float(dpi[1])
    except (TypeError, ValueError):
        return "dpi-odd"
    cls = []
    if a != b:
        cls.append("non-square")
    if a != int(a) or b != int(b):
        cls.append("fractional")
    if a < 1 or b < 1:
        cls.append("tiny")
    if a > 2048 or b > 2048:
        cls.append("huge")
    return "dpi-" + ("+".join(cls) or "integral")


class ImageOracle(Oracle):
    name = "c15"

    def on_open(self, w, deck):
        m = _memo(deck)
        if not m.get("scanned"):
            base = collections.Counter(hashlib.sha1(p.blob).hexdigest() for p in _image_parts(deck.prs))
            m["base"] = {k: v for k, v in base.items() if v > 1}
            m["pre"] = {k: True for k in base}      # bytes the deck held when it was first opened: their part keeps the name and type it has
            m["scanned"] = True

    def on_checkpoint(self, w, deck, image, ev):
        pkg = refpkg.RefPackage.from_bytes(image)
        m = _memo(deck)
        by_sha = collections.defaultdict(list)
        for n in pkg.reachable:
            if n.startswith("/ppt/media/image"):
                by_sha[hashlib.sha1(pkg.members[n]).hexdigest()].append(n)
        for sha, info in sorted(m["shas"].items()):
            ns = by_sha.get(sha, [])
            if len(ns) > max(1, m["base"].get(sha, 0)):
                w.report("once|saved-zip-has-same-bytes-%d-times" % len(ns), str(ns), CLAUSES["once"])
            for n in ns:
                if m["base"].get(sha, 0) == 0 and sha not in m.get("pre", {}):
                    if refpkg.ext_of(n) != info["ext"]:
                        w.report("type|saved-member-ext", "%s expected .%s" % (n, info["ext"]), CLAUSES["type"])
                    if pkg.content_type(n) != info["ct"]:
                        w.report("type|saved-content-type", "%s is %s expected %s" % (n, pkg.content_type(n), info["ct"]), CLAUSES["type"])
        w.stats.hit("c15_saved_zip_checks")

    def on_restart(self, w, deck, ev):
        verify_store(w, deck, deck.prs, "after-restart")
        w.stats.hit("c15_restart_checks")


def plan(tier):
    if tier == "quick":
        return {"runs": 1800, "budget_s": 75, "chunk": 10}
    return {"runs": 40000, "budget_s": 780, "chunk": 16}


def gen_trace(seed: int, tier: str) -> dict:
    S = Streams(seed)
    r = S("config")
    n = r.randint(8, 28) if tier == "quick" else r.randint(15, 80)
    arm = r.choice(["nofault", "nofault", "fault"])
    events, sw = common.gen_history(seed, n_events=n, families=["c15"], always=("c15",), ckpt=0.07, reopen=0.08, restart=0.04,
                                    observe=0.02, jump=0.0, fork=0.02, warmup=False,
                                    src_fault_rate=0.25 if arm == "fault" else 0.0, fault_rate=0.15 if arm == "fault" else 0.0)
    rs = S("start")
    deck = rs.choice(["default", "default", "f-shp-picture.pptx", "f-ph-unpopulated-placeholders.pptx", "f-shp-movie-props.pptx", "t-test.pptx",
                      "f-ph-populated-placeholders.pptx", "f-shp-shapes.pptx", "t-test_slides.pptx"])
    pre = [{"op": "add_slide", "layout": rs.choice([6, 8, 8, 1]), "dt": 1.0}, {"op": "add_slide", "layout": 8, "dt": 1.0}]
    start = {"deck": deck, "form": rs.choice(["stream", "path", "dir"])}
    if rs.random() < 0.2:
        start.setdefault("xform", []).append({"kind": "layout_logo", "k": rs.randint(0, 11), "seed": rs.randint(0, 9)})
    if deck != "default" and rs.random() < 0.5:
        # the deck's media parts as another producer numbers them (holes below the maximum, number 1 free, sparse)
        start.setdefault("xform", []).append({"kind": "renumber", "family": "media", "mode": rs.choice(["odd", "shift", "sparse", "reverse"]), "seed": rs.randint(0, 99)})
    if rs.random() < 0.2:
        # the deck as a producer writes it that declares its JPEG parts "image/jpg"
        start.setdefault("xform", []).append({"kind": "alias_types", "seed": rs.randint(0, 9)})
    return {"property": ID, "seed": seed, "tier": tier, "config": {"arm": arm, "max_slides": 6},
            "start": [start], "events": pre + events}


def make_oracles(trace):
    return [ImageOracle()]


def nontrivial(trace, res):
    st = res["stats"]
    return st.get("c15_adds", 0) >= 3 and st.get("c15_repeated_bytes", 0) >= 1


def pinned_traces(tier):
    out = []
    A = {"fmt": "PNG", "w": 5, "h": 3, "seed": 1, "mode": "RGB", "dpi": [96, 96]}
    B = {"fmt": "JPEG", "w": 4, "h": 4, "seed": 2, "mode": "RGB", "dpi": None}
    base = {"slide": 0, "x": 0, "y": 0, "cx": 100000, "cy": 50000, "size": "none", "how": "picture", "reuse": False}
    # index rebuilt after restart: add A, save, re-open, add A (path) and A (stream at offset 7)
    evs = [{"op": "add_slide", "layout": 8}, {"op": "add_slide", "layout": 6},
           dict(base, op="c15.add", img=A, src={"via": "stream", "pos": 0}),
           {"op": "reopen", "sink": "seekable", "form": "stream"},
           dict(base, op="c15.add", img=A, src={"via": "path", "fname": "a.jpg"}, slide=1),
           dict(base, op="c15.add", img=A, src={"via": "stream", "pos": 7}, size="w"),
           dict(base, op="c15.add", img=B, src={"via": "path", "fname": "b.png"}),
           dict(base, op="c15.add", img=A, src={"via": "stream", "pos": 0}, how="poster"),
           dict(base, op="c15.add", img=A, src={"via": "stream", "pos": 0}, how="icon"),
           dict(base, op="c15.add", img=B, src={"via": "stream", "pos": 3}, how="placeholder"),
           dict(base, op="c15.add", img=A, src={"via": "stream", "pos": 0, "fault": {"kind": "eio", "at": 1}}),
           dict(base, op="c15.add", img=A, src={"via": "path", "fname": "x.png", "fault": {"kind": "missing"}}),
           dict(base, op="c15.add", img=A, src={"via": "stream", "pos": 0}),
           {"op": "checkpoint", "sink": "unseekable"}, {"op": "restart", "form": "path"},
           dict(base, op="c15.add", img=B, src={"via": "stream", "pos": 0}, size="h")]
    out.append({"property": ID, "seed": "index-rebuilt-after-restart", "tier": "pinned", "config": {"pinned": True},
                "start": [{"deck": "default"}], "events": evs})
    # media parts numbered with holes (another producer, or objects deleted in PowerPoint): several new distinct images, save, re-open
    for dk in ("f-shp-picture.pptx", "f-shp-movie-props.pptx", "f-ph-populated-placeholders.pptx", "t-test_slides.pptx"):
        for mode in ("odd", "shift", "sparse"):
            evs = [{"op": "add_slide", "layout": 6}]
            for k in range(5):
                evs.append(dict(base, op="c15.add", slide=10 ** 6, img={"fmt": ("PNG", "JPEG", "GIF", "BMP", "TIFF")[k], "w": 3 + k, "h": 2, "seed": 40 + k, "mode": "RGB", "dpi": None},
                                src={"via": "stream", "pos": 0}))
            evs += [{"op": "checkpoint", "sink": "seekable"}, {"op": "restart"},
                    dict(base, op="c15.add", slide=10 ** 6, img={"fmt": "PNG", "w": 9, "h": 9, "seed": 77, "mode": "RGB", "dpi": None}, src={"via": "stream", "pos": 0}),
                    {"op": "checkpoint", "sink": "seekable"}, {"op": "restart"}]
            out.append({"property": ID, "seed": "media-numbered-with-holes-%s-%s" % (dk, mode), "tier": "pinned", "config": {"pinned": True},
                        "start": [{"deck": dk, "xform": [{"kind": "renumber", "family": "media", "mode": mode, "seed": 5}]}], "events": evs})
    # an image that only an (unused) layout holds: new image, layout removed, another new image of the same type, the layout's image again
    for dk in ("f-lyt-shapes.pptx", "f-mst-shapes.pptx", "f-prs-notes.pptx"):
        evs = [{"op": "add_slide", "layout": 0},
               dict(base, op="c15.add", img={"fmt": "PNG", "w": 4, "h": 4, "seed": 91, "mode": "RGB", "dpi": None}, src={"via": "stream", "pos": 0}),
               dict(base, op="c15.add", img={"fmt": "JPEG", "w": 4, "h": 4, "seed": 92, "mode": "RGB", "dpi": None}, src={"via": "stream", "pos": 0})]
        evs += [{"op": "remove_layout", "layout": k} for k in (0, 1, 2, 3, 0, 1)]
        evs += [dict(base, op="c15.add", img={"fmt": "PNG", "w": 5, "h": 4, "seed": 93, "mode": "RGB", "dpi": None}, src={"via": "stream", "pos": 0}),
                dict(base, op="c15.add", img={"fmt": "JPEG", "w": 5, "h": 4, "seed": 94, "mode": "RGB", "dpi": None}, src={"via": "stream", "pos": 0})]
        evs += [dict(base, op="c15.add", img=A, existing=k_, src={"via": "stream", "pos": 0}) for k_ in range(3)]
        evs += [{"op": "checkpoint", "sink": "seekable"}, {"op": "restart"}]
        out.append({"property": ID, "seed": "image-held-by-a-layout-%s" % dk, "tier": "pinned", "config": {"pinned": True}, "start": [{"deck": dk}], "events": evs})
    # JPEG parts declared "image/jpg" by the producer of the deck: a new JPEG, the deck's own images again, re-opened, again
    for dk in ("default", "f-shp-picture.pptx", "t-test.pptx", "f-test-image-jpg-mime.pptx"):
        evs = [{"op": "add_slide", "layout": 6},
               dict(base, op="c15.add", img={"fmt": "JPEG", "w": 4, "h": 4, "seed": 97, "mode": "RGB", "dpi": None}, src={"via": "stream", "pos": 0})]
        evs += [dict(base, op="c15.add", img=A, existing=k_, src={"via": "stream", "pos": 0}) for k_ in range(3)]
        evs += [{"op": "checkpoint", "sink": "seekable"}, {"op": "restart"}]
        evs += [dict(base, op="c15.add", img=A, existing=k_, src={"via": "stream", "pos": 0}) for k_ in range(3)]
        evs += [{"op": "checkpoint", "sink": "seekable"}, {"op": "restart"}]
        out.append({"property": ID, "seed": "jpeg-declared-image-jpg-%s" % dk, "tier": "pinned", "config": {"pinned": True},
                    "start": [{"deck": dk, "xform": ([] if dk.startswith("f-test-image") else [{"kind": "alias_types", "seed": 1}])}], "events": evs})
    # one buffer object refilled and passed again and again
    evs = [{"op": "add_slide", "layout": 6}]
    for k in range(6):
        evs.append(dict(base, op="c15.add", img={"fmt": ("PNG", "JPEG", "PNG", "GIF", "PNG", "BMP")[k], "w": 4 + k % 2, "h": 3, "seed": 120 + k // 2, "mode": "RGB", "dpi": None},
                        src={"via": "buffer", "pos": 0}, how=("picture", "picture", "placeholder", "picture", "icon", "poster")[k]))
    evs += [{"op": "checkpoint", "sink": "seekable"}, {"op": "restart"}]
    out.append({"property": ID, "seed": "one-buffer-refilled", "tier": "pinned", "config": {"pinned": True}, "start": [{"deck": "default"}], "events": evs})
    # a template with a logo on a layout no slide uses (layout_logo): new image, the layout removed, another new image, the logo's bytes again
    for k_ in (10, 3):
        evs = [{"op": "add_slide", "layout": 0},
               dict(base, op="c15.add", img={"fmt": "PNG", "w": 4, "h": 4, "seed": 95, "mode": "RGB", "dpi": None}, src={"via": "stream", "pos": 0}),
               {"op": "remove_layout", "layout": k_},
               dict(base, op="c15.add", img={"fmt": "PNG", "w": 5, "h": 4, "seed": 96, "mode": "RGB", "dpi": None}, src={"via": "stream", "pos": 0}),
               dict(base, op="c15.add", img=A, existing=0, src={"via": "stream", "pos": 0}), dict(base, op="c15.add", img=A, existing=0, src={"via": "path", "fname": "logo.png"}),
               {"op": "checkpoint", "sink": "seekable"}, {"op": "restart"},
               dict(base, op="c15.add", img=A, existing=0, src={"via": "stream", "pos": 0}), {"op": "checkpoint", "sink": "seekable"}]
        out.append({"property": ID, "seed": "logo-on-an-unused-layout-%d" % k_, "tier": "pinned", "config": {"pinned": True},
                    "start": [{"deck": "default", "xform": [{"kind": "layout_logo", "k": k_, "seed": 3}]}], "events": evs})
    # the same path names a different file of the same length, rewritten within one (simulated) second: BMPs of one pixel size
    for fmt_ in ("BMP", "TIFF"):
        evs = [{"op": "add_slide", "layout": 6}]
        for k in range(4):
            evs.append(dict(base, op="c15.add", dt=0.0, img={"fmt": fmt_, "w": 6, "h": 4, "seed": 60 + k, "mode": "RGB", "dpi": None}, src={"via": "path", "fname": "same-name.%s" % fmt_.lower()}))
            if k == 1:
                evs += [{"op": "checkpoint", "sink": "seekable", "dt": 0.0}, {"op": "restart", "dt": 0.0}]
        evs += [{"op": "checkpoint", "sink": "seekable"}, {"op": "restart"}]
        out.append({"property": ID, "seed": "same-path-same-length-same-second-%s" % fmt_, "tier": "pinned", "config": {"pinned": True}, "start": [{"deck": "default"}], "events": evs})
    # every format x dpi class, no size
    evs = [{"op": "add_slide", "layout": 6}]
    for fmt in gens.IMG_FORMATS:
        for dpi in (None, [72, 72], [300, 300], [72.009, 96.5], [0, 0], [5000, 1], [2048, 2049], [72, 144], [0.6, 1.4]):
            if fmt == "GIF" and dpi is not None:
                continue
            rec = {"fmt": fmt, "w": 7, "h": 5, "seed": 3, "mode": "RGB", "dpi": dpi}
            for size in ("none", "w", "h"):
                evs.append(dict(base, op="c15.add", img=rec, src={"via": "stream", "pos": 0}, size=size, cx=1234567, cy=765432))
    evs += [{"op": "checkpoint", "sink": "seekable"}, {"op": "restart"}]
    out.append({"property": ID, "seed": "formats-x-dpi", "tier": "pinned", "config": {"pinned": True}, "start": [{"deck": "default"}], "events": evs})
    return out
