"""C09 - a property reads back as set, survives save/re-open; None restores inheritance.

A declarative catalog of settable properties (object navigator, attribute, domain incl. boundaries, out-of-domain values,
storage quantum, None semantics, dependency group) drives seeded assignment histories with restarts in between."""
from __future__ import annotations

import math

from .. import gens
from .. import ops as O
from ..engine import Oracle, jdump
from ..rng import Streams, xml_text
from . import common

ID = "C09"
LEVEL = "exploration"
RULE = ("seeded assignment histories over a declarative catalog of settable properties (Presentation, slide, shape geometry / "
        "rotation / name / adjustments / crop, text frame / paragraph / font, colour / fill / gradient stop / line / shadow, table "
        "/ cell / row / column, chart / legend / axis / tick labels / plot / data labels / series / marker), values drawn from "
        "each documented domain incl. boundaries, None where documented, and out-of-domain values; interleaved with save/re-"
        "open; oracle = model {(object, attr): value | INHERIT} within the storage quantum, same after restart, out-of-domain => "
        "TypeError|ValueError and nothing changes, frame condition on the object's other catalogued properties outside the "
        "assigned property's dependency group; non-trivial = >=5 effective in-domain assignments on >=3 catalog entries and "
        ">=1 restart or checkpoint; distinct = distinct event-log digest")
ASSUMPTIONS = [
    "coverage of 'every settable property' is a reported number: evidence lists catalogued / reflected settable properties",
    "quanta: 1 EMU for lengths, 1/100 pt for font size and paragraph spacing, 1/60000 degree for angles, 1/100000 for fractions",
    "dependency groups are explicit and conservative (a property's group members may change when it is assigned)",
    "a rotation is compared modulo 360 degrees",
    "objects live on a kit slide built by a fixed preamble of public calls; corpus decks contribute their own objects",
]
CLAUSES = {
    "readback": "reading after assignment returns the assigned value (to within the stated storage quantum)",
    "persist": "and the same value is read after saving and re-opening",
    "none": "Assigning None where documented removes the explicit setting so that the reader reports inheritance",
    "reject": "a value outside the domain raises TypeError or ValueError",
    "frame": "assignment leaves the readings of the object's other, independent properties unchanged",
}

EMU_Q, ANG_Q, FRAC_Q, CPT_Q = 1, 1.0 / 60000 + 1e-12, 1.0 / 100000 + 1e-12, 127  # 1/100 pt = 127 EMU


# ---- value specs (JSON) -> Python values ----------------------------------------------------------------------------------------

def dec(v):
    k = v["k"]
    if k in ("int", "float", "bool", "str"):
        return v["v"]
    if k == "none":
        return None
    if k == "pt":
        from pptx.util import Pt
        return Pt(v["v"])
    if k == "emu":
        from pptx.util import Emu
        return Emu(v["v"])
    if k == "rgb":
        from pptx.dml.color import RGBColor
        return RGBColor.from_string(v["v"])
    if k == "enum":
        mod = __import__("pptx.enum." + v["mod"], fromlist=[v["enum"]])
        return getattr(getattr(mod, v["enum"]), v["name"])
    if k == "list":
        return [1, 2]
    raise ValueError(k)


def I(x):
    return {"k": "int", "v": x}


def F(x):
    return {"k": "float", "v": x}


def B(x):
    return {"k": "bool", "v": x}


def S(x):
    return {"k": "str", "v": x}


def PT(x):
    return {"k": "pt", "v": x}


def E(mod, enum, name):
    return {"k": "enum", "mod": mod, "enum": enum, "name": name}


NONE = {"k": "none"}


def enum_names(mod, enum, only_xml=True):
    m = __import__("pptx.enum." + mod, fromlist=[enum])
    out = []
    for mem in getattr(m, enum):
        if only_xml and not getattr(mem, "xml_value", "x"):
            continue
        out.append(mem.name)
    return out


# ---- comparators ---------------------------------------------------------------------------------------------------------------------

def _is_enum(v):
    return hasattr(v, "name") and hasattr(v, "value") and not isinstance(v, bool)


def eq_exact(a, b):
    """Equal AND of the same kind: an int-valued enumeration member compares equal to True / 1 in Python (MSO_UNDERLINE.WORDS == True),
    which is not "reads back what was assigned"."""
    if (a is None) != (b is None) or isinstance(a, bool) != isinstance(b, bool) or _is_enum(a) != _is_enum(b):
        return False
    return a == b


def eq_underline(a, b):
    # documented: True <-> SINGLE_LINE, False <-> NONE
    def n(v):
        nm = getattr(v, "name", None)
        return True if nm == "SINGLE_LINE" else (False if nm == "NONE" else v)
    return eq_exact(n(a), n(b))


def eq_tol(q):
    def f(a, b):
        if a is None or b is None:
            return a is b
        try:
            return abs(float(a) - float(b)) <= q
        except (TypeError, ValueError):
            return False
    return f


def eq_line_spacing(a, b):
    """A number of lines reads back as a number (1e-5 quantum); a Length reads back as a Length (1/100 pt quantum): the two kinds are
    not comparable with each other."""
    if a is None or b is None:
        return a is b
    from pptx.util import Length
    if isinstance(a, Length) != isinstance(b, Length):
        return False
    return abs(float(a) - float(b)) <= (CPT_Q if isinstance(a, Length) else FRAC_Q)


def eq_angle(a, b):
    if a is None or b is None:
        return a is b
    d = (float(a) - float(b)) % 360.0
    return min(d, 360.0 - d) <= ANG_Q + 1e-9


# ---- the catalog ------------------------------------------------------------------------------------------------------------------------
# entry: id -> dict(obj=<object kind>, attr, good=[specs] | callable(r)->spec, bad=[specs], eq, none=None|"none"|<default>, group)

# documented defaults of the EMU-valued properties (text-frame and cell insets of either side): assigning a value that EQUALS some default
# explicitly is a boundary of its own (a setter that "does not write the default" must know which default belongs to which side)
EMU_DEFAULTS = (91440, 45720)


def _emus(r, lo=0, hi=9144000):
    return I(r.choice([v for v in (lo, hi, lo + 1, hi - 1, 914400, 12700, r.choice(EMU_DEFAULTS), r.randint(lo, hi)) if lo <= v <= hi]))


def _fracs(r, lo=0.0, hi=1.0):
    return F(r.choice([lo, hi, (lo + hi) / 2, 0.33333, 0.123456, round(r.uniform(lo, hi), 5), 0.25]))


CAT = {}


def entry(eid, obj, attr, good, bad=(), eq=eq_exact, none=None, group=None):
    CAT[eid] = dict(obj=obj, attr=attr, good=good, bad=list(bad), eq=eq, none=none, group=group or eid)


def build_catalog():
    if CAT:
        return
    BADNUM = [S("12"), {"k": "list"}]
    # presentation / slide
    entry("prs.slide_width", "prs", "slide_width", lambda r: _emus(r, 914400, 51206400), [I(914399), I(51206401), I(0), S("x")], eq_tol(EMU_Q))
    entry("prs.slide_height", "prs", "slide_height", lambda r: _emus(r, 914400, 51206400), [I(914399), I(51206401), I(-1)], eq_tol(EMU_Q))
    entry("slide.name", "slide", "name", lambda r: S(xml_text(r, 20)))
    # shape geometry
    for a in ("left", "top"):
        entry("shape." + a, "shape", a, lambda r: I(r.choice([0, 1, -914400, 9144000, r.randint(-10 ** 7, 10 ** 8)])), [S("1in"), {"k": "list"}], eq_tol(EMU_Q))
    for a in ("width", "height"):
        entry("shape." + a, "shape", a, lambda r: _emus(r, 0, 10 ** 8), [I(-1), S("x")], eq_tol(EMU_Q))
    entry("shape.rotation", "shape", "rotation", lambda r: F(r.choice([0.0, 45.0, 90.5, 359.99, 360.0, -90.0, 720.25, 0.00002, round(r.uniform(-400, 400), 4)])),
          [S("45")], eq_angle)
    entry("shape.name", "shape", "name", lambda r: S(xml_text(r, 20)))
    entry("pic.crop_left", "pic", "crop_left", lambda r: _fracs(r, -0.5, 1.0), [S("x")], eq_tol(FRAC_Q))
    entry("pic.crop_right", "pic", "crop_right", lambda r: _fracs(r, -0.5, 1.0), [S("x")], eq_tol(FRAC_Q))
    entry("pic.crop_top", "pic", "crop_top", lambda r: _fracs(r, -0.5, 1.0), [], eq_tol(FRAC_Q))
    entry("pic.crop_bottom", "pic", "crop_bottom", lambda r: _fracs(r, -0.5, 1.0), [], eq_tol(FRAC_Q))
    for a in ("begin_x", "begin_y", "end_x", "end_y"):
        entry("cxn." + a, "cxn", a, lambda r: I(r.choice([0, 1, 5000000, r.randint(0, 9000000)])), [S("x")], eq_tol(EMU_Q))
    entry("adj.value", "adj", "0", lambda r: F(r.choice([0.0, 0.5, 1.0, -0.25, 2.5, 0.12345, round(r.random(), 5)])), [S("x")], eq_tol(FRAC_Q))
    # text frame
    for a in ("margin_left", "margin_right", "margin_top", "margin_bottom"):
        entry("tf." + a, "tf", a, lambda r: _emus(r, 0, 5000000), [S("x")], eq_tol(EMU_Q))
    entry("tf.word_wrap", "tf", "word_wrap", [B(True), B(False), NONE], [], none="none")
    entry("tf.auto_size", "tf", "auto_size", [E("text", "MSO_AUTO_SIZE", n) for n in ("NONE", "SHAPE_TO_FIT_TEXT", "TEXT_TO_FIT_SHAPE")] + [NONE], [S("x")], none="none")
    entry("tf.vertical_anchor", "tf", "vertical_anchor", [E("text", "MSO_ANCHOR", n) for n in ("TOP", "MIDDLE", "BOTTOM")] + [NONE], [S("x")], none="none")
    # paragraph
    entry("p.alignment", "p", "alignment", [E("text", "PP_ALIGN", n) for n in ("LEFT", "CENTER", "RIGHT", "JUSTIFY", "DISTRIBUTE", "THAI_DISTRIBUTE", "JUSTIFY_LOW")] + [NONE],
          [S("center"), I(99)], none="none")
    entry("p.level", "p", "level", [I(i) for i in range(9)], [I(9), I(-1), S("1")])
    entry("p.line_spacing", "p", "line_spacing", lambda r: r.choice([F(1.0), F(1.5), F(0.9), F(2.0), F(0.0), F(132.0), F(1.23456), PT(12), PT(20.5), PT(0), PT(1584), NONE,
                                                                    I(2), I(1), I(3)]),     # "A numeric value, e.g. 2 or 1.5": an int is a number of lines too
          [S("x"), F(132.5), F(-0.1), PT(1585)], eq_line_spacing, none="none")
    for a in ("space_before", "space_after"):
        entry("p." + a, "p", a, lambda r: r.choice([PT(0), PT(6), PT(12.5), PT(1584), PT(0.01), NONE]), [S("x"), PT(1585), PT(-1)], eq_tol(CPT_Q), none="none")
    # font
    entry("font.bold", "font", "bold", [B(True), B(False), NONE], [], none="none")
    entry("font.italic", "font", "italic", [B(True), B(False), NONE], [], none="none")
    entry("font.size", "font", "size", lambda r: r.choice([PT(1), PT(12), PT(10.5), PT(4000), PT(18), PT(0.01 * r.randint(100, 400000)), NONE]),
          [PT(0.99), PT(4000.01), PT(-1)], eq_tol(CPT_Q), none="none")
    entry("font.name", "font", "name", lambda r: r.choice([S("Arial"), S("Calibri"), S(xml_text(r, 12, False)), NONE]), [], none="none")
    entry("font.underline", "font", "underline", [B(True), B(False), NONE] + [E("text", "MSO_UNDERLINE", n) for n in enum_names("text", "MSO_UNDERLINE") if n != "MIXED"],
          [S("single")], eq=eq_underline, none="none")
    entry("font.language_id", "font", "language_id", [E("lang", "MSO_LANGUAGE_ID", n) for n in ("ENGLISH_US", "FRENCH", "JAPANESE", "GERMAN")] + [NONE], [S("en-US")], none="LANG_NONE")
    # colour (shape fill fore colour) - one dependency group
    entry("color.rgb", "color", "rgb", lambda r: {"k": "rgb", "v": "%06X" % r.randint(0, 0xFFFFFF)}, [S("FF0000"), I(0xFF0000), NONE], group="color")
    entry("color.theme_color", "color", "theme_color", [E("dml", "MSO_THEME_COLOR", n) for n in ("ACCENT_1", "ACCENT_6", "DARK_1", "LIGHT_2", "HYPERLINK", "TEXT_1", "BACKGROUND_2")],
          [S("ACCENT_1"), I(9999), E("dml", "MSO_THEME_COLOR", "NOT_THEME_COLOR")], group="color")
    entry("color.brightness", "color", "brightness", lambda r: _fracs(r, -1.0, 1.0), [F(1.01), F(-1.5), S("x")], eq_tol(FRAC_Q), group="color")
    # gradient / pattern
    entry("grad.gradient_angle", "grad", "gradient_angle", lambda r: F(r.choice([0.0, 45.0, 90.5, 359.0, 180.0, 0.00002, 0.000002, 0.000008, 359.999996, round(r.uniform(0, 359.99), 4)])), [S("x")], eq_angle)
    entry("gradstop.position", "gradstop", "position", lambda r: _fracs(r, 0.0, 1.0), [F(1.1), F(-0.1), S("x")], eq_tol(FRAC_Q))
    entry("patt.pattern", "patt", "pattern", [E("dml", "MSO_PATTERN", n) for n in ("CROSS", "DIVOT", "PERCENT_50", "WAVE", "ZIG_ZAG", "PERCENT_5")], [S("cross")])
    # line
    entry("line.width", "line", "width", lambda r: _emus(r, 0, 20116800), [I(-1), I(20116801), S("x")], eq_tol(EMU_Q))
    entry("line.dash_style", "line", "dash_style", [E("dml", "MSO_LINE", n) for n in ("DASH", "ROUND_DOT", "SOLID", "LONG_DASH_DOT", "SQUARE_DOT")] + [NONE], [S("dash")], none="none")
    entry("shadow.inherit", "shadow", "inherit", [B(True), B(False)])
    # table
    for a in ("first_row", "first_col", "last_row", "last_col", "horz_banding", "vert_banding"):
        entry("tbl." + a, "tbl", a, [B(True), B(False)])
    for a, dflt in (("margin_left", 91440), ("margin_right", 91440), ("margin_top", 45720), ("margin_bottom", 45720)):
        entry("cell." + a, "cell", a, lambda r: r.choice([_emus(r, 0, 3000000), NONE]), [S("x"), F(1.5)], eq_tol(EMU_Q), none=dflt)
    entry("cell.vertical_anchor", "cell", "vertical_anchor", [E("text", "MSO_ANCHOR", n) for n in ("TOP", "MIDDLE", "BOTTOM")] + [NONE], [S("x")], none="none")
    entry("col.width", "col", "width", lambda r: _emus(r, 0, 5000000), [S("x")], eq_tol(EMU_Q), group="tblsize")
    entry("row.height", "row", "height", lambda r: _emus(r, 0, 5000000), [S("x")], eq_tol(EMU_Q), group="tblsize")
    # chart
    entry("chart.has_legend", "chart", "has_legend", [B(True), B(False)], group="legend")
    entry("chart.has_title", "chart", "has_title", [B(True), B(False)], group="title")
    entry("chart.chart_style", "chart", "chart_style", [I(1), I(2), I(10), I(26), I(48), NONE], [I(0), I(49), S("2")], none="none")
    entry("legend.position", "legend", "position", [E("chart", "XL_LEGEND_POSITION", n) for n in ("BOTTOM", "CORNER", "LEFT", "RIGHT", "TOP")], [S("bottom")], group="legend-pos")
    entry("legend.horz_offset", "legend", "horz_offset", lambda r: _fracs(r, -1.0, 1.0), [F(1.5), F(-1.5)], eq_tol(FRAC_Q), group="legend-off")
    entry("legend.include_in_layout", "legend", "include_in_layout", [B(True), B(False)], group="legend-lay")
    for ax in ("cax", "vax"):
        entry(ax + ".has_major_gridlines", ax, "has_major_gridlines", [B(True), B(False)])
        entry(ax + ".has_minor_gridlines", ax, "has_minor_gridlines", [B(True), B(False)])
        entry(ax + ".has_title", ax, "has_title", [B(True), B(False)])
        entry(ax + ".visible", ax, "visible", [B(True), B(False)], [S("x"), I(5)])
        entry(ax + ".reverse_order", ax, "reverse_order", [B(True), B(False)])
        entry(ax + ".major_tick_mark", ax, "major_tick_mark", [E("chart", "XL_TICK_MARK", n) for n in ("CROSS", "INSIDE", "NONE", "OUTSIDE")], [S("x")])
        entry(ax + ".minor_tick_mark", ax, "minor_tick_mark", [E("chart", "XL_TICK_MARK", n) for n in ("CROSS", "INSIDE", "NONE", "OUTSIDE")], [S("x")])
        entry(ax + ".tick_label_position", ax, "tick_label_position", [E("chart", "XL_TICK_LABEL_POSITION", n) for n in ("HIGH", "LOW", "NEXT_TO_AXIS", "NONE")], [S("x")])
        entry(ax + ".maximum_scale", ax, "maximum_scale", lambda r: r.choice([F(100.0), F(50.5), F(-1.0), F(1e6), F(0.1 + 0.2), NONE]), [S("x")], eq_exact, none="none")
        entry(ax + ".minimum_scale", ax, "minimum_scale", lambda r: r.choice([F(0.0), F(-10.25), F(7.0), F(1e-9), NONE]), [S("x")], eq_exact, none="none")
    entry("vax.major_unit", "vax", "major_unit", lambda r: r.choice([F(10.0), F(0.5), F(1e-3), F(12345.678), NONE]), [F(0.0), F(-1.0), S("x")], eq_exact, none="none")
    entry("vax.minor_unit", "vax", "minor_unit", lambda r: r.choice([F(1.0), F(0.1), F(2.5), NONE]), [F(0.0), F(-1.0)], eq_exact, none="none")
    entry("ticklabels.number_format", "ticklabels", "number_format", lambda r: S(r.choice(["General", "0.0", "#,##0", '0"<&>"', "0%"])), group="tl-numfmt")
    entry("ticklabels.number_format_is_linked", "ticklabels", "number_format_is_linked", [B(True), B(False)], group="tl-numfmt")
    entry("ticklabels.offset", "cat_ticklabels", "offset", [I(0), I(100), I(1000), I(50), I(1)], [I(-1), I(1001), S("x")])
    entry("barplot.gap_width", "barplot", "gap_width", [I(0), I(150), I(500), I(50), I(1)], [I(-1), I(501), S("x")])
    entry("barplot.overlap", "barplot", "overlap", [I(0), I(100), I(-100), I(25), I(-1)], [I(101), I(-101), S("x")])
    entry("plot.vary_by_categories", "plot", "vary_by_categories", [B(True), B(False)])
    entry("plot.has_data_labels", "plot", "has_data_labels", [B(True), B(False)], group="dlbls")
    entry("bubbleplot.bubble_scale", "bubbleplot", "bubble_scale", [I(0), I(100), I(300), I(50), NONE], [I(-1), I(301), S("x")], none=100)
    entry("dlbls.number_format", "dlbls", "number_format", lambda r: S(r.choice(["General", "0.0%", '#,##0"&"', "0.00"])), group="dl-numfmt")
    entry("dlbls.number_format_is_linked", "dlbls", "number_format_is_linked", [B(True), B(False)], group="dl-numfmt")
    entry("dlbls.position", "dlbls", "position", [E("chart", "XL_DATA_LABEL_POSITION", n) for n in ("CENTER", "INSIDE_END", "OUTSIDE_END", "INSIDE_BASE")] + [NONE], [S("x")], none="none")
    for a in ("show_category_name", "show_legend_key", "show_percentage", "show_series_name", "show_value"):
        entry("dlbls." + a, "dlbls", a, [B(True), B(False)])
    entry("vax.crosses", "vax", "crosses", [E("chart", "XL_AXIS_CROSSES", n) for n in ("AUTOMATIC", "MAXIMUM", "MINIMUM")], [S("x")], group="crosses")
    entry("vax.crosses_at", "vax", "crosses_at", lambda r: r.choice([F(0.0), F(2.5), F(-1.0), F(100.0), NONE]), [S("x")], eq_exact, none="none", group="crosses")
    entry("charttitle.has_text_frame", "charttitle", "has_text_frame", [B(True), B(False)])
    entry("axistitle.has_text_frame", "axistitle", "has_text_frame", [B(True), B(False)])
    entry("dlbl.has_text_frame", "dlbl", "has_text_frame", [B(True), B(False)], group="dlbl")
    entry("dlbl.position", "dlbl", "position", [E("chart", "XL_DATA_LABEL_POSITION", n) for n in ("CENTER", "INSIDE_END", "OUTSIDE_END")] + [NONE], [S("x")], none="none", group="dlbl-pos")
    entry("xyplot.vary_by_categories", "xyplot", "vary_by_categories", [B(True), B(False)])
    entry("xyplot.has_data_labels", "xyplot", "has_data_labels", [B(True), B(False)])
    entry("bubbleplot.vary_by_categories", "bubbleplot", "vary_by_categories", [B(True), B(False)])
    entry("bubbleplot.has_data_labels", "bubbleplot", "has_data_labels", [B(True), B(False)])
    entry("lineplot.has_data_labels", "lineplot", "has_data_labels", [B(True), B(False)])
    entry("pic.auto_shape_type", "pic", "auto_shape_type", [E("shapes", "MSO_SHAPE", n) for n in ("RECTANGLE", "OVAL", "ROUNDED_RECTANGLE", "HEART", "CHEVRON")], [S("oval"), I(99999)])
    entry("runlink.address", "runlink", "address", lambda r: r.choice([S("http://example.com/"), S("https://a.b/c?d=e&f=g"), S("mailto:x@y.z"), NONE]), [], none="none")
    entry("clicklink.address", "clicklink", "address", lambda r: r.choice([S("http://example.com/"), S("http://e.x/" + xml_text(r, 6)), NONE]), [], none="none")
    entry("barseries.invert_if_negative", "barseries", "invert_if_negative", [B(True), B(False)])
    entry("lineseries.smooth", "lineseries", "smooth", [B(True), B(False)])
    entry("marker.size", "marker", "size", [I(2), I(5), I(72), I(30), NONE], [I(1), I(73), S("x")], none="none", group="marker-size")
    # the same on single POINTS of a series (c:dPt elements, created on demand in whatever order the caller touches the points)
    entry("pointmarker.size", "pointmarker", "size", [I(2), I(5), I(72), I(30), NONE], [I(1), I(73), S("x")], none="none", group="pointmarker-size")
    entry("pointmarker.style", "pointmarker", "style", [E("chart", "XL_MARKER_STYLE", n) for n in ("CIRCLE", "DASH", "DIAMOND", "SQUARE", "STAR", "X")] + [NONE], [S("x")], none="none", group="pointmarker-style")
    entry("marker.style", "marker", "style", [E("chart", "XL_MARKER_STYLE", n) for n in ("CIRCLE", "DASH", "DIAMOND", "SQUARE", "STAR", "X", "NONE", "AUTOMATIC")] + [NONE], [S("x")], none="none", group="marker-style")


# ---- object navigation ---------------------------------------------------------------------------------------------------------------------

KIT_EVENTS = None


def kit_events():
    """Fixed preamble building one slide that holds every object kind of the catalog."""
    box = {"x": 100000, "y": 100000, "cx": 2000000, "cy": 1000000, "slide": 0}
    img = {"fmt": "PNG", "w": 8, "h": 6, "seed": 5, "mode": "RGB", "dpi": [96, 96]}

    def chart(t, kind, ns=2):
        if kind == "cat":
            d = {"kind": "cat", "cat_type": "str", "categories": ["a", "b", "c"], "series": [{"name": "s%d" % i, "values": [1.0 + i, 2.0, 3.0]} for i in range(ns)]}
        else:
            d = {"kind": kind, "series": [{"name": "s", "points": [[1, 2] + ([3] if kind == "bubble" else []), [2, 4] + ([1] if kind == "bubble" else [])]}]}
        return dict(box, op="add_chart", type=t, data=d)
    return [
        {"op": "add_slide", "layout": 6},
        dict(box, op="add_shape", type="ROUNDED_RECTANGLE"),                # 0 autoshape with one adjustment (non-zero default)
        dict(box, op="add_shape", type="CHEVRON"),                          # 1 second autoshape (gradient / pattern host)
        dict(box, op="add_shape", type="ROUNDED_RECTANGLE", x=3000000),     # 2 a second shape of the SAME preset: never assigned unless as a peer
        dict(box, op="add_connector", type="STRAIGHT", ex=50000, ey=40000),  # flipped in both axes (begin > end)
        dict(box, op="add_connector", type="ELBOW", x=10, y=20, ex=900000, ey=700000),
        dict(box, op="add_textbox", text="para one\npara two"),
        dict(box, op="add_picture", img=img, src={"via": "stream", "pos": 0}, size="none"),
        dict(box, op="add_table", rows=2, cols=2),
        chart("COLUMN_CLUSTERED", "cat"), chart("LINE_MARKERS", "cat"), chart("BUBBLE", "bubble"), chart("XY_SCATTER", "xy"),
        {"op": "shape_fill", "slide": 0, "shape": 0, "mode": "solid", "rgb": "336699", "theme": None, "pattern": "CROSS", "angle": None, "bright": None, "stop": None},
    ]


KIT_SHAPES = 12  # shapes the kit preamble appends to slide 0 (3 autoshapes, 2 connectors, text box, picture, table, 4 charts)


def _shape_of(sl, pred, i=0):
    """i in 0..1: the i-th matching KIT shape (the last KIT_SHAPES shapes of the slide); i >= 2: a matching shape the
    start deck itself brought (PowerPoint-authored object), falling back to the kit when the deck has none."""
    shapes = list(sl.shapes)
    kit = [s for s in shapes[-KIT_SHAPES:] if pred(s)]
    own = [s for s in shapes[:-KIT_SHAPES] if pred(s)]
    if i >= 2 and own:
        return own[(i - 2) % len(own)]
    if not kit:
        raise O.Skip("kit object missing")
    return kit[i % len(kit)]


def _chart_of(sl, cls_name):
    for s in sl.shapes:
        if getattr(s, "has_chart", False):
            ch = s.chart
            plots = list(ch.plots)
            if plots and type(plots[0]).__name__ == cls_name:
                return ch
    raise O.Skip("no %s chart" % cls_name)


def locate(prs, obj, a):
    """Return (python object, locator string) for an object kind on the kit slide (slide index a['slide'])."""
    sls = list(prs.slides)
    if not sls:
        raise O.Skip("no slides")
    sl = sls[a.get("slide", 0) % len(sls)]
    auto = lambda s: type(s).__name__ == "Shape" and not s.is_placeholder  # noqa: E731
    if obj == "prs":
        return prs
    if obj == "slide":
        return sl
    if obj == "shape":
        return _shape_of(sl, auto, a.get("i", 0))
    if obj == "adj":
        def rr(s):
            try:
                return auto(s) and len(s.adjustments) > 0 and (a.get("i", 0) >= 2 or s.auto_shape_type.name == "ROUNDED_RECTANGLE")
            except ValueError:
                return False
        return _shape_of(sl, rr, a.get("i", 0)).adjustments
    if obj == "cxn":
        return _shape_of(sl, lambda s: type(s).__name__ == "Connector", a.get("i", 0))
    if obj == "pic":
        return _shape_of(sl, lambda s: type(s).__name__ == "Picture", a.get("i", 0))
    tb = lambda s: auto(s) and s.has_text_frame and s.text_frame.text != ""  # noqa: E731
    if obj == "tf":
        return _shape_of(sl, tb, a.get("i", 0) if a.get("i", 0) >= 2 else 0).text_frame
    if obj == "p":
        ps = _shape_of(sl, tb, a.get("i", 0) if a.get("i", 0) >= 2 else 0).text_frame.paragraphs
        return ps[a.get("i", 0) % len(ps)]
    if obj == "font":
        ps = _shape_of(sl, tb, a.get("i", 0) if a.get("i", 0) >= 2 else 0).text_frame.paragraphs
        p = ps[a.get("i", 0) % len(ps)]
        if not p.runs:
            raise O.Skip("no runs")
        return p.runs[0].font
    if obj in ("color", "grad", "gradstop", "patt", "line", "shadow"):
        sh = _shape_of(sl, auto, 0)
        if obj == "color":
            f = sh.fill
            if f.type is None or f.type.name != "SOLID":
                f.solid()
            if f.fore_color.type is None:
                from pptx.dml.color import RGBColor
                f.fore_color.rgb = RGBColor(0x33, 0x66, 0x99)  # brightness is documented to need a colour type
            return f.fore_color
        if obj in ("grad", "gradstop"):
            sh2 = _shape_of(sl, auto, 1)
            f = sh2.fill
            if f.type is None or f.type.name != "GRADIENT":
                f.gradient()
                f.gradient_angle = 0
            return f if obj == "grad" else f.gradient_stops[a.get("i", 0) % 2]
        if obj == "patt":
            sh2 = _shape_of(sl, auto, 1)
            f = sh2.line.fill
            if f.type is None or f.type.name != "PATTERNED":
                f.patterned()
            return f
        if obj == "line":
            return sh.line
        return sh.shadow
    if obj in ("tbl", "cell", "col", "row"):
        t = _shape_of(sl, lambda s: getattr(s, "has_table", False)).table
        if obj == "tbl":
            return t
        if obj == "cell":
            return t.cell(a.get("i", 0) % 2, 0)
        if obj == "col":
            return t.columns[a.get("i", 0) % 2]
        return t.rows[a.get("i", 0) % 2]
    if obj == "chart":
        return _chart_of(sl, "BarPlot")
    if obj == "legend":
        ch = _chart_of(sl, "BarPlot")
        if not ch.has_legend:
            ch.has_legend = True
        return ch.legend
    if obj == "cax":
        return _chart_of(sl, "BarPlot").category_axis
    if obj == "vax":
        return _chart_of(sl, "BarPlot").value_axis
    if obj == "ticklabels":
        return _chart_of(sl, "BarPlot").value_axis.tick_labels
    if obj == "cat_ticklabels":
        return _chart_of(sl, "BarPlot").category_axis.tick_labels
    if obj == "barplot" or obj == "plot":
        return list(_chart_of(sl, "BarPlot").plots)[0]
    if obj == "xyplot":
        return list(_chart_of(sl, "XyPlot").plots)[0]
    if obj == "lineplot":
        return list(_chart_of(sl, "LinePlot").plots)[0]
    if obj == "charttitle":
        ch = _chart_of(sl, "BarPlot")
        if not ch.has_title:
            ch.has_title = True
        return ch.chart_title
    if obj == "axistitle":
        ax = _chart_of(sl, "LinePlot").value_axis
        if not ax.has_title:
            ax.has_title = True
        return ax.axis_title
    if obj == "dlbl":
        return list(_chart_of(sl, "LinePlot").plots)[0].series[0].points[a.get("i", 0) % 2].data_label
    if obj == "runlink":
        ps = _shape_of(sl, tb, a.get("i", 0) if a.get("i", 0) >= 2 else 0).text_frame.paragraphs
        p = ps[a.get("i", 0) % len(ps)]
        if not p.runs:
            raise O.Skip("no runs")
        return p.runs[0].hyperlink
    if obj == "clicklink":
        return _shape_of(sl, auto, a.get("i", 0)).click_action.hyperlink
    if obj == "bubbleplot":
        return list(_chart_of(sl, "BubblePlot").plots)[0]
    if obj == "dlbls":
        pl = list(_chart_of(sl, "BarPlot").plots)[0]
        if not pl.has_data_labels:
            pl.has_data_labels = True
        return pl.data_labels
    if obj == "barseries":
        return list(_chart_of(sl, "BarPlot").plots)[0].series[a.get("i", 0) % 2]
    if obj == "lineseries":
        return list(_chart_of(sl, "LinePlot").plots)[0].series[a.get("i", 0) % 2]
    if obj == "pointmarker":
        pts = list(_chart_of(sl, "LinePlot").plots)[0].series[1].points
        return pts[(2 - a.get("i", 0)) % 3].marker     # object 0 is the LAST point, object 1 the middle one: touched in descending order too
    if obj == "marker":
        return list(_chart_of(sl, "LinePlot").plots)[0].series[a.get("i", 0) % 2].marker
    raise O.Skip("unknown object kind %s" % obj)


def getv(o, ent):
    if ent["obj"] == "adj":
        return o[0]
    return getattr(o, ent["attr"])


class Raised:
    """A reading that raised: compares unequal to every value, prints the exception class."""

    def __init__(self, e):
        self.e = e

    def __repr__(self):
        return "<raised %s: %s>" % (type(self.e).__name__, str(self.e)[:80])


def sget(o, ent):
    try:
        return getv(o, ent)
    except Exception as e:  # noqa: BLE001
        return Raised(e)


def none_reading(ent):
    if ent["none"] == "none":
        return None
    if ent["none"] == "LANG_NONE":
        from pptx.enum.lang import MSO_LANGUAGE_ID
        return MSO_LANGUAGE_ID.NONE
    return ent["none"]


def setv(o, ent, v):
    if ent["obj"] == "adj":
        o[0] = v
    else:
        setattr(o, ent["attr"], v)


def norm(v):
    """JSON-able normal form of a reading"""
    if v is None or isinstance(v, (bool, str)):
        return v
    if isinstance(v, Raised):
        return "!%s" % type(v.e).__name__
    if isinstance(v, float):
        return ["f", repr(v)]
    if hasattr(v, "name") and hasattr(v, "value") and not isinstance(v, int):
        return ["e", v.name]
    if isinstance(v, int):
        n = getattr(v, "name", None)
        return ["e", n] if n is not None and not isinstance(v, bool) and type(v).__name__ not in ("int", "Emu", "Length", "Pt", "Centipoints", "Inches", "Cm", "Mm") else int(v)
    return repr(v)


def siblings(obj_kind):
    return [eid for eid, e in CAT.items() if e["obj"] == obj_kind]


def read_all(o, obj_kind, exclude_group):
    out = {}
    for eid in siblings(obj_kind):
        e = CAT[eid]
        if e["group"] == exclude_group:
            continue
        try:
            out[eid] = norm(getv(o, e))
        except Exception as ex:  # noqa: BLE001
            out[eid] = "!%s" % type(ex).__name__
    return out


def _memo(deck):
    return deck.memo.setdefault("c09", {"vals": {}})


def g_set(r):
    build_catalog()
    eid = r.choice(sorted(CAT))
    e = CAT[eid]
    kind = "good"
    if e["bad"] and r.random() < 0.15:
        kind = "bad"
        v = r.choice(e["bad"])
    else:
        v = e["good"](r) if callable(e["good"]) else r.choice(e["good"])
    i = r.randint(0, 1)
    if e["obj"] in ("shape", "pic", "tf", "p", "font", "cxn", "adj") and r.random() < 0.3:
        i = r.randint(2, 5)   # an object the start deck brought along, when there is one
    return {"entry": eid, "v": v, "kind": kind, "slide": 0, "i": i}


@O.op("c09.set", "c09", weight=10.0)
@O.gen(g_set)
def _set(w, deck, a):
    build_catalog()
    e = CAT[a["entry"]]
    if w.trace.get("property") != ID:
        return _set_unjudged(w, deck, a, e)
    o = locate(deck.prs, e["obj"], a)
    # navigating to a container that had to be switched on (legend, data labels) changes the switch property
    sw = {"legend": "chart.has_legend", "dlbls": "plot.has_data_labels", "charttitle": "chart.has_title"}.get(e["obj"])
    if sw:
        for k in list(_memo(deck)["vals"]):
            if _memo(deck)["vals"][k]["entry"] == sw:
                del _memo(deck)["vals"][k]
    try:
        v = dec(a["v"])
    except (ValueError, KeyError, AttributeError):
        raise O.Skip("value spec not decodable here")
    key = "%s|%d" % (a["entry"], a.get("i", 0) if e["obj"] in ("shape", "p", "font", "cell", "col", "row", "barseries", "lineseries", "marker", "gradstop", "cxn", "dlbl", "runlink", "clicklink", "tf", "pic", "adj", "pointmarker") else 0)
    before_self = norm(sget(o, e))
    others = read_all(o, e["obj"], e["group"])
    peer_a = _peer_args(deck.prs, e, a)
    peer_before = _peer_reading(deck.prs, e, peer_a)
    try:
        setv(o, e, v)
        raised = None
    except Exception as ex:  # noqa: BLE001
        raised = ex
    if a["kind"] == "bad":
        if raised is None:
            got = sget(o, e)
            w.report("reject|out-of-domain-accepted|%s" % a["entry"], "value=%r now reads %r" % (v, got), CLAUSES["reject"])
            _memo(deck)["vals"].pop(key, None)
            return "ok"
        if not isinstance(raised, (TypeError, ValueError)):
            w.report("reject|wrong-exception|%s|%s" % (type(raised).__name__, a["entry"]), "value=%r exc=%r" % (v, raised), CLAUSES["reject"])
        after_self = norm(sget(o, e))
        if after_self != before_self:
            # The statement does not promise that a rejected assignment leaves the property itself untouched (several
            # setters remove the old setting before validating the new value); it is only recorded, and what the model
            # knew about this property (and its dependency group) is forgotten.  Whether the part is still schema-valid
            # after such a call is C03's question (C03 runs these same catalog assignments under the XSD oracle).
            w.stats.hit("c09_rejected_value_changed_the_property")
        # a rejected assignment may have removed the old setting of the property or of a member of its dependency group
        for k in list(_memo(deck)["vals"]):
            if CAT[_memo(deck)["vals"][k]["entry"]]["group"] == e["group"]:
                del _memo(deck)["vals"][k]
        others2 = read_all(o, e["obj"], e["group"])
        if others2 != others:
            ch = sorted(k for k in others if others[k] != others2.get(k))
            w.report("reject|rejected-value-changed-sibling|%s|%s" % (a["entry"], ch[0]), "changed=%r" % ch, CLAUSES["reject"])
        w.stats.hit("c09_rejected")
        return "rejected:%s" % type(raised).__name__
    if raised is not None:
        import traceback
        w.report("readback|in-domain-value-raises|%s|%s" % (a["entry"], type(raised).__name__), "value=%r\n%s" % (v, "".join(traceback.format_exception(raised))[-700:]), CLAUSES["readback"])
        return "undoc:%s" % type(raised).__name__
    got = sget(o, e)
    want = v
    if isinstance(got, Raised):
        w.report("readback|reading-raises-after-assignment|%s|%s" % (a["entry"], type(got.e).__name__), "set %r; %r" % (v, got), CLAUSES["readback"])
        return "ok"
    if v is None:
        if e["none"] is None:
            raise O.Skip("None not documented")
        want = none_reading(e)
        if not e["eq"](want, got):
            w.report("none|does-not-restore-inheritance|%s" % a["entry"], "after None reads %r (expected %r)" % (got, want), CLAUSES["none"])
    elif not e["eq"](want, got):
        w.report("readback|%s" % a["entry"], "set %r read %r" % (v, got), CLAUSES["readback"])
    others2 = read_all(o, e["obj"], e["group"])
    if others2 != others:
        ch = sorted(k for k in others if others[k] != others2.get(k))
        w.report("frame|%s-changes-%s" % (a["entry"], ch[0]), "assigned %r; changed readings: %r" % (v, {k: (others[k], others2.get(k)) for k in ch}), CLAUSES["frame"])
    peer_after = _peer_reading(deck.prs, e, peer_a)
    if peer_after != peer_before:
        ch = sorted(k for k in peer_before if peer_before[k] != peer_after.get(k))
        w.report("frame|other-object-of-the-same-kind-changed|%s-changes-%s" % (a["entry"], ch[0] if ch else "?"),
                 "assigned %r on object %d; readings of object %d changed: %r" % (v, a.get("i", 0), peer_a["i"], {k: (peer_before[k], peer_after.get(k)) for k in ch}), CLAUSES["frame"])
    if peer_a is not None:
        w.stats.hit("c09_peer_object_frames")
    _memo(deck)["vals"][key] = {"entry": a["entry"], "i": a.get("i", 0), "slide": a.get("slide", 0), "want": norm(want), "spec": a["v"]}
    # members of the same dependency group are no longer predictable; a container switch (has_legend, has_data_labels)
    # invalidates what was recorded about the container's own properties, and navigating to a container that had to
    # be switched on invalidates what was recorded about the switch
    INVALIDATES = {"chart.has_legend": "legend.", "plot.has_data_labels": "dlbls.", "chart.has_title": "charttitle."}
    SWITCH_OF = {"legend": "chart.has_legend", "dlbls": "plot.has_data_labels", "charttitle": "chart.has_title"}
    for k in list(_memo(deck)["vals"]):
        eid2 = _memo(deck)["vals"][k]["entry"]
        ent2 = CAT[eid2]
        pre = INVALIDATES.get(a["entry"])
        if k != key and (ent2["group"] == e["group"] or (pre and eid2.startswith(pre)) or SWITCH_OF.get(e["obj"]) == eid2):
            del _memo(deck)["vals"][k]
    # everything recorded about OTHER objects and properties still reads as recorded, right now (not only at the next checkpoint)
    verify_all(w, deck, deck.prs, "after-assignment-elsewhere", skip=key)
    w.stats.hit("c09_sets")
    w.stats.hit("c09_entry_" + a["entry"])
    if v is None:
        w.stats.hit("c09_none_assignments")


def _set_unjudged(w, deck, a, e):
    """The same assignment as a plain workload step (used by C03 under the XSD oracle)."""
    o = locate(deck.prs, e["obj"], a)
    try:
        v = dec(a["v"])
    except (ValueError, KeyError, AttributeError):
        raise O.Skip("value spec not decodable here")
    try:
        setv(o, e, v)
    except (TypeError, ValueError, AttributeError, KeyError, IndexError) as ex:
        w.stats.hit("catalog_rejected")
        return "rejected:%s" % type(ex).__name__
    w.stats.hit("catalog_sets")


PEERABLE = ("pointmarker", "shape", "adj", "cxn", "cell", "col", "row", "barseries", "lineseries", "marker", "gradstop", "dlbl", "clicklink", "p", "font", "runlink")


def _peer_args(prs, e, a):
    """Locator of ANOTHER object of the same kind (kit objects 0 and 1 are distinct objects for these kinds), or None."""
    i = a.get("i", 0)
    if e["obj"] not in PEERABLE or i >= 2:
        return None
    pa = dict(a, i=1 - i)
    if e["obj"] in ("p", "font", "runlink"):
        try:
            if len(locate(prs, "tf", a).paragraphs) < 2:
                return None
        except O.Skip:
            return None
    return pa


def _peer_reading(prs, e, pa):
    if pa is None:
        return {}
    try:
        o2 = locate(prs, e["obj"], pa)
    except O.Skip:
        return {}
    return read_all(o2, e["obj"], None)


def verify_all(w, deck, prs, when, skip=None):
    build_catalog()
    for key, m in sorted(_memo(deck)["vals"].items()):
        if key == skip:
            continue
        e = CAT[m["entry"]]
        try:
            o = locate(prs, e["obj"], m)
        except O.Skip:
            continue
        got = sget(o, e)
        spec = m["spec"]
        want = none_reading(e) if spec["k"] == "none" else dec(spec)
        if isinstance(got, Raised):
            w.report("persist|reading-raises|%s|%s|%s" % (m["entry"], type(got.e).__name__, when), "want %r; %r" % (want, got), CLAUSES["persist"])
        elif not e["eq"](want, got):
            w.report("persist|%s|%s" % (m["entry"], when), "want %r got %r" % (want, got), CLAUSES["persist"])
        w.stats.hit("c09_persist_checks")


class CatalogOracle(Oracle):
    name = "c09"

    def on_checkpoint(self, w, deck, image, ev):
        import pptx
        from ..disk import SimSource
        verify_all(w, deck, pptx.Presentation(SimSource(image)), "reopened-at-checkpoint")

    def on_restart(self, w, deck, ev):
        verify_all(w, deck, deck.prs, "after-restart")
        w.stats.hit("c09_restart_checks")

    def at_end(self, w):
        w.stats["c09_catalog_entries"] = len(CAT)


def plan(tier):
    if tier == "quick":
        return {"runs": 1500, "budget_s": 75, "chunk": 10}
    return {"runs": 40000, "budget_s": 780, "chunk": 16}


def gen_trace(seed: int, tier: str) -> dict:
    build_catalog()
    S = Streams(seed)
    r = S("config")
    n = r.randint(10, 40) if tier == "quick" else r.randint(25, 120)
    events, sw = common.gen_history(seed, fault_rate=common.fault_arm(seed), n_events=n, families=["c09"], always=("c09",), ckpt=0.05, reopen=0.06, restart=0.03,
                                    observe=0.01, jump=0.0, fork=0.03, warmup=False)
    common.rewritten_between_sessions(seed, events, hows=("bool_words", "charts:reverse_repeated", "charts:optional_children"))
    pre = [dict(e, dt=1.0) for e in kit_events()] + [{"op": "checkpoint", "sink": "seekable", "dt": 1.0}]  # the kit is durable
    return {"property": ID, "seed": seed, "tier": tier, "config": {"max_slides": 40, "max_shapes": 80},
            "start": [_start(S("start"))], "events": pre + events}


def _start(rs):
    """fresh objects on the default template, or the kit on top of a corpus deck (slide 0 then also offers the deck's own
    PowerPoint-authored objects to the navigators)"""
    form = rs.choice(["stream", "path", "dir"])
    if rs.random() < 0.3:
        return {"deck": rs.choice(common.corpus_decks()), "form": form}
    return {"deck": "default", "form": form}


def make_oracles(trace):
    build_catalog()
    return [CatalogOracle()]


def nontrivial(trace, res):
    st = res["stats"]
    return st.get("c09_sets", 0) >= 5 and sum(1 for k in st if k.startswith("c09_entry_")) >= 3 and \
        (st.get("c09_restart_checks", 0) + st.get("c09_persist_checks", 0)) >= 1


def pinned_traces(tier):
    """Every catalog entry: every listed in-domain value (or 6 seeded draws), None where documented, every out-of-domain value,
    with a re-open in the middle and a restart at the end."""
    import random
    build_catalog()
    out = []
    for eid in sorted(CAT):
        e = CAT[eid]
        r = random.Random(eid)
        goods = [e["good"](r) for _ in range(8)] if callable(e["good"]) else list(e["good"])
        evs = list(kit_events())
        for i, v in enumerate(goods):
            evs.append({"op": "c09.set", "entry": eid, "v": v, "kind": "good", "slide": 0, "i": i % 2})
            if i == len(goods) // 2:
                evs.append({"op": "reopen", "sink": "seekable", "form": "stream"})
        for v in e["bad"]:
            evs.append({"op": "c09.set", "entry": eid, "v": v, "kind": "bad", "slide": 0, "i": 0})
        evs += [{"op": "checkpoint", "sink": "seekable"}, {"op": "restart"}]
        out.append({"property": ID, "seed": "entry-%s" % eid, "tier": "pinned", "config": {"pinned": True}, "start": [{"deck": "default"}], "events": evs})
    # two objects given exactly the same value, then one of them changed: the other keeps it (shared relationship / shared defaults)
    X, Y, Z = S("http://example.com/"), S("https://a.b/c?d=e&f=g"), S("mailto:x@y.z")
    NONE_ = {"k": "none"}
    for eid in ("runlink.address", "clicklink.address"):
        for second in (NONE_, Y):
            evs = list(kit_events())
            for i, v in ((0, X), (1, X), (0, second)):
                evs.append({"op": "c09.set", "entry": eid, "v": v, "kind": "good", "slide": 0, "i": i})
            other = "clicklink.address" if eid.startswith("run") else "runlink.address"
            evs += [{"op": "c09.set", "entry": other, "v": Z, "kind": "good", "slide": 0, "i": 0},
                    {"op": "c09.set", "entry": eid, "v": X, "kind": "good", "slide": 0, "i": 0},
                    {"op": "c09.set", "entry": eid, "v": NONE_, "kind": "good", "slide": 0, "i": 1},
                    {"op": "c09.set", "entry": other, "v": Y, "kind": "good", "slide": 0, "i": 1},
                    {"op": "checkpoint", "sink": "seekable"}, {"op": "restart"}]
            out.append({"property": ID, "seed": "shared-url-%s-%s" % (eid, second["k"]), "tier": "pinned", "config": {"pinned": True}, "start": [{"deck": "default"}], "events": evs})
    # data labels / data points of single points exist, another producer stores them in another order (c:dLbl, c:dPt are unordered lists),
    # then the same and other points are touched again
    for how in ("reverse_repeated",):
        evs = list(kit_events())
        for i_ in (0, 1):
            evs += [{"op": "c09.set", "entry": "dlbl.has_text_frame", "v": B(True), "kind": "good", "slide": 0, "i": i_},
                    {"op": "c09.set", "entry": "pointmarker.size", "v": I(5 + i_), "kind": "good", "slide": 0, "i": i_}]
        evs += [{"op": "checkpoint", "sink": "seekable"}, {"op": "restart", "xform": [{"kind": "rewrite_charts", "how": how}]}]
        for i_ in (1, 0, 1):
            evs += [{"op": "c09.set", "entry": "dlbl.position", "v": E("chart", "XL_DATA_LABEL_POSITION", "CENTER"), "kind": "good", "slide": 0, "i": i_},
                    {"op": "c09.set", "entry": "pointmarker.style", "v": E("chart", "XL_MARKER_STYLE", "DIAMOND"), "kind": "good", "slide": 0, "i": i_}]
        evs += [{"op": "checkpoint", "sink": "seekable"}, {"op": "restart"}]
        out.append({"property": ID, "seed": "point-elements-in-another-order-%s" % how, "tier": "pinned", "config": {"pinned": True}, "start": [{"deck": "default"}], "events": evs})
    evs = list(kit_events()) + [{"op": "c09.set", "entry": "shape.left", "v": I(111111), "kind": "good", "slide": 0, "i": 0}]
    evs += [{"op": "checkpoint", "sink": "seekable"}] + [{"op": "checkpoint", "sink": "seekable", "fault": {"kind": k_, "at": 50, "at_frac": f_, "sticky": False}} for k_, f_ in (("enospc", 0.97), ("eio", 0.995), ("enospc", 0.6))]
    evs += [{"op": "c09.set", "entry": "shape.left", "v": I(555555), "kind": "good", "slide": 0, "i": 0}, {"op": "c09.set", "entry": "font.bold", "v": B(True), "kind": "good", "slide": 0, "i": 0},
            {"op": "c09.set", "entry": "prs.slide_width", "v": I(9000000), "kind": "good", "slide": 0, "i": 0}, {"op": "checkpoint", "sink": "seekable"}, {"op": "restart"}]
    out.append({"property": ID, "seed": "late-failed-save-then-edit", "tier": "pinned", "config": {"pinned": True}, "start": [{"deck": "default"}], "events": evs})
    evs = list(kit_events())
    for i, v in ((0, F(0.4)), (1, F(0.1)), (0, F(0.0)), (1, F(0.16667))):
        evs.append({"op": "c09.set", "entry": "adj.value", "v": v, "kind": "good", "slide": 0, "i": i})
        evs.append({"op": "reopen", "sink": "seekable", "form": "stream"})
    evs += [{"op": "checkpoint", "sink": "seekable"}, {"op": "restart"}]
    out.append({"property": ID, "seed": "two-shapes-of-one-preset", "tier": "pinned", "config": {"pinned": True}, "start": [{"deck": "default"}], "events": evs})
    return out


def extra_coverage():
    """Catalog size vs the settable properties found by reflection over the public proxy classes."""
    import importlib
    import inspect
    import pkgutil
    import pptx
    build_catalog()
    refl = []
    for m in pkgutil.walk_packages(pptx.__path__, "pptx."):
        n = m.name
        if any(x in n for x in (".oxml", ".opc", ".parts", ".enum", "compat")):
            continue
        try:
            mod = importlib.import_module(n)
        except Exception:  # noqa: BLE001
            continue
        for cname, cls in inspect.getmembers(mod, inspect.isclass):
            if cls.__module__ != n:
                continue
            for name, attr in cls.__dict__.items():
                if not name.startswith("_") and isinstance(attr, property) and attr.fset is not None:
                    refl.append("%s.%s" % (cname, name))
    covered_attrs = {e["attr"] for e in CAT.values()}
    not_in_catalog = sorted(x for x in refl if x.split(".")[1] not in covered_attrs)
    return {"catalog_entries": len(CAT), "settable_properties_by_reflection": len(refl),
            "reflected_properties_whose_attribute_name_is_not_in_the_catalog": not_in_catalog}
