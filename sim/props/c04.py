"""C04 - text assigned is the text read back, with only the documented translations."""
from __future__ import annotations

import re

from lxml import etree

from .. import ops as O
from .. import refpkg
from ..engine import Oracle
from ..rng import ASTRAL, MARKUP, Streams, xml_text
from . import common

ID = "C04"
LEVEL = "exploration"
RULE = ("seeded histories: text assignments at frame / cell / paragraph / run level (strings over XML Char + C0 "
        "controls: empty, whitespace-only, leading/trailing/runs of \\n \\v, _xHHHH_ look-alikes, markup, astral) onto "
        "text boxes, placeholders, table cells and notes bodies driven into prior states by other text operations, "
        "interleaved with checkpoints and restarts; oracle = executable model of the documented translation per level "
        "+ paragraph/break counts (public API and independent parse of the saved slide) + persistence of every "
        "recorded reading across later operations and restarts; non-trivial = >=2 effective assignments and >=1 "
        "checkpoint or restart; distinct = distinct event-log digest")
ASSUMPTIONS = [
    "acceptance is asserted for strings over the XML Char production plus C0 controls (no surrogates, U+FFFE/U+FFFF)",
    "\\r is a C0 control and is modelled as escaped (_x000D_); \\t is kept verbatim",
    "generic text operations of the shared alphabet (add_run, clear, ...) are trusted to change text: recorded "
    "readings of that deck are refreshed after them, never after non-text operations",
]
CLAUSES = {
    "readback": "Assigning a string to a text frame, table cell, paragraph or run and reading it back returns that "
                "string changed only as documented for that level",
    "structure": "The body then holds exactly one paragraph per frame-level segment and one line-break element per break",
    "pprops": "paragraph-level assignment keeps that paragraph's properties",
    "persist": "and the same text is read after saving and re-opening",
    "accept": "(acceptance) every string of XML-representable characters plus C0 controls can be assigned",
}

_ESC_FRAME = re.compile(r"[\x00-\x08\x0C-\x1F]")
_ESC_RUN = re.compile(r"[\x00-\x08\x0B-\x1F]")


def _esc(m):
    return "_x%04X_" % ord(m.group(0))


def model_frame(s: str) -> str:
    return _ESC_FRAME.sub(_esc, s)


def model_para(s: str) -> str:
    return _ESC_FRAME.sub(_esc, s.replace("\n", "\v"))


def model_run(s: str) -> str:
    return _ESC_RUN.sub(_esc, s)


# ---- text generator ------------------------------------------------------------------------------------

C0 = [chr(c) for c in range(0x20) if c not in (0x09, 0x0A, 0x0B)]


def gen_text(r) -> str:
    k = r.random()
    if k < 0.08:
        return ""
    if k < 0.105:
        # long texts: many lines, many control characters, lengths on either side of the powers of two an implementation may carry inside
        n = r.choice([255, 256, 257, 300, 1023, 1025])
        unit = r.choice(["l\r\n", "\x07", "a\n", "\v", "_x000D_", "x\r", "é\t"])
        return (unit * n)[: r.choice([n, n * len(unit)])]
    if k < 0.16:
        return r.choice([" ", "  ", "\t", " \t ", "\n", "\v", "\n\n", "\v\v", "\n\v\n", " \n ", "\n ", " \v"])
    parts = []
    for _ in range(r.choice([1, 1, 2, 3, 5])):
        j = r.random()
        if j < 0.3:
            parts.append(xml_text(r, 12))
        elif j < 0.5:
            parts.append(r.choice(["\n", "\v", "\n\n", "\v\n", "\n\v", "\v\v\v"]))
        elif j < 0.6:
            parts.append(r.choice(C0))
        elif j < 0.68:
            parts.append(r.choice(["_x000D_", "_x0007_", "_x", "_x00", "_x005F_", "_X000a_", "x000A_", "_x0041_"]))
        elif j < 0.76:
            parts.append(r.choice(MARKUP))
        elif j < 0.84:
            parts.append(r.choice(ASTRAL))
        elif j < 0.9:
            parts.append(r.choice([" ", "  ", "\t"]))
        else:
            parts.append(r.choice(["\r", "\r\n", "\x7f", "\x85", "\u2028", "\ufffd", "\ufeff"]))
    return "".join(parts)


# ---- keys & navigation ------------------------------------------------------------------------------------

def _frame_for_key(prs, key):
    kind = key[0]
    sl = prs.slides.get(key[1])
    if sl is None:
        return None
    if kind == "notes":
        if not sl.has_notes_slide:
            return None
        return sl.notes_slide.notes_text_frame
    sh = None
    for s in O.walk_shapes(sl.shapes):
        if s.shape_id == key[2]:
            sh = s
            break
    if sh is None:
        return None
    if kind == "sp":
        return sh.text_frame if sh.has_text_frame else None
    if kind == "cell":
        if not getattr(sh, "has_table", False):
            return None
        t = sh.table
        if key[3] >= len(t.rows) or key[4] >= len(t.columns):
            return None
        return t.cell(key[3], key[4]).text_frame
    return None


def _reading(tf):
    return [p.text for p in tf.paragraphs]


def _memo(deck):
    return deck.memo.setdefault("c04", {})


def _record(deck, key, tf):
    _memo(deck)["|".join(map(str, key))] = {"key": list(key), "paras": _reading(tf)}


def _check_persist(w, deck, key, tf, when):
    ent = _memo(deck).get("|".join(map(str, key)))
    if ent is None:
        return
    got = _reading(tf)
    if got != ent["paras"]:
        w.report("persist|%s|%s" % (when, key[0]), "key=%r expected=%r got=%r" % (key, ent["paras"], got), CLAUSES["persist"])
    w.stats.hit("c04_persist_checks")


PPROPS = ("alignment", "level", "line_spacing", "space_before", "space_after")


def _pprops(p):
    return [getattr(p, a) for a in PPROPS] + [p.font.bold, p.font.italic, p.font.size]


# ---- the assignment op -----------------------------------------------------------------------------------------

def g_assign(r):
    d = O.g_sh(r)
    d.update({"target": r.choice(["sp", "sp", "sp", "cell", "notes", "ph"]),
              "level": r.choice(["frame", "frame", "para", "para", "run", "shape"]),
              "para": r.randint(0, 4), "run": r.randint(0, 3), "r": r.randint(0, 4), "c": r.randint(0, 4),
              "text": gen_text(r), "same": r.random() < 0.12})
    return d


@O.op("c04.assign", "c04", weight=6.0)
@O.gen(g_assign)
def _assign(w, deck, a):
    tgt, level, text = a["target"], a["level"], a["text"]
    if tgt == "notes":
        sl = O.nav_slide(w, deck, a)
        tf = sl.notes_slide.notes_text_frame
        if tf is None:
            raise O.Skip("no notes body")
        key = ("notes", sl.slide_id)
        holder = None
    elif tgt == "cell":
        sl, sh, tbl = O.nav_table(w, deck, a)
        nr, nc = len(tbl.rows), len(tbl.columns)
        r_, c_ = a["r"] % nr, a["c"] % nc
        holder = tbl.cell(r_, c_)
        tf = holder.text_frame
        key = ("cell", sl.slide_id, sh.shape_id, r_, c_)
    else:
        sl, sh = O.nav_shape(w, deck, a, "ph" if tgt == "ph" else "text")
        if not sh.has_text_frame:
            raise O.Skip("no text frame")
        holder = sh
        tf = sh.text_frame
        key = ("sp", sl.slide_id, sh.shape_id)
    if a.get("held"):
        # the TextFrame / cell proxy obtained the first time is used again (it stays valid: its element is never replaced)
        hk = ("c04tf",) + tuple(key)
        if hk in deck.handles:
            tf, holder_h = deck.handles[hk]
            if holder is not None:
                holder = holder_h
            w.stats.hit("c04_held_text_frame_used")
        else:
            deck.handles[hk] = (tf, holder)
    _check_persist(w, deck, key, tf, "before-next-assignment")
    pre = _reading(tf)
    if a.get("same"):
        # idempotent re-assignment: assign exactly the string this level currently reads
        if level in ("frame", "shape"):
            text = tf.text
        elif level == "para":
            text = tf.paragraphs[a["para"] % len(tf.paragraphs)].text
        else:
            cands0 = [(i, j) for i, p in enumerate(tf.paragraphs) for j, _ in enumerate(p.runs)]
            if not cands0:
                raise O.Skip("no runs")
            i0, j0 = cands0[(a["para"] * 4 + a["run"]) % len(cands0)]
            text = tf.paragraphs[i0].runs[j0].text
        w.stats.hit("c04_reassign_same")
    try:
        if level in ("frame", "shape"):
            for hk_ in [k for k in deck.handles if k[0] == "c04p" and k[1:1 + len(key)] == tuple(key)]:
                del deck.handles[hk_]       # frame-level assignment replaces the paragraphs
            if level == "shape" and holder is not None:
                holder.text = text          # Shape.text / _Cell.text delegate to the frame
            else:
                tf.text = text
            segs = text.split("\n")
            exp = [model_frame(s) for s in segs]
            got = _reading(tf)
            if tf.text != model_frame(text):
                w.report("readback|frame|%s" % _cls(text, tf.text, model_frame(text)),
                         "assigned=%r expected=%r got=%r" % (text, model_frame(text), tf.text), CLAUSES["readback"])
            if len(got) != len(segs):
                w.report("structure|paragraph-count", "assigned=%r paragraphs=%d expected=%d" % (text, len(got), len(segs)), CLAUSES["structure"])
            elif got != exp:
                w.report("readback|frame-paragraphs|%s" % _cls(text, "\n".join(got), "\n".join(exp)),
                         "assigned=%r expected=%r got=%r" % (text, exp, got), CLAUSES["readback"])
        elif level == "para":
            ps = tf.paragraphs
            i = a["para"] % len(ps)
            p = ps[i]
            if a.get("held"):
                # a _Paragraph proxy kept from an earlier operation (valid as long as the frame was not re-assigned,
                # which replaces the paragraph elements: the harness forgets the handles of that frame then)
                pk = ("c04p",) + tuple(key) + (i,)
                if pk in deck.handles:
                    p = deck.handles[pk]
                    _ = [x.text for x in p.runs]   # the caller looked at the runs before ...
                    w.stats.hit("c04_held_paragraph_used")
                else:
                    deck.handles[pk] = p
                    _ = [x.text for x in p.runs]
            props = _pprops(p)
            p.text = text
            ps2 = tf.paragraphs
            if len(ps2) != len(ps):
                w.report("structure|para-assign-changed-paragraph-count", "%d -> %d" % (len(ps), len(ps2)), CLAUSES["structure"])
            got = ps2[i].text
            if got != model_para(text):
                w.report("readback|para|%s" % _cls(text, got, model_para(text)),
                         "assigned=%r expected=%r got=%r" % (text, model_para(text), got), CLAUSES["readback"])
            others = [q.text for j, q in enumerate(ps2) if j != i]
            if others != [t for j, t in enumerate(pre) if j != i]:
                w.report("readback|para|other-paragraphs-changed", "pre=%r post=%r" % (pre, [q.text for q in ps2]), CLAUSES["readback"])
            props2 = _pprops(ps2[i])
            if props2 != props:
                w.report("pprops|changed|%s" % ",".join(n for n, x, y in zip(PPROPS + ("bold", "italic", "size"), props, props2) if x != y),
                         "before=%r after=%r" % (props, props2), CLAUSES["pprops"])
        else:
            ps = tf.paragraphs
            cands = [(i, j) for i, p in enumerate(ps) for j, _ in enumerate(p.runs)]
            if not cands:
                raise O.Skip("no runs")
            i, j = cands[(a["para"] * 4 + a["run"]) % len(cands)]
            hp = deck.handles.get(("c04p",) + tuple(key) + (i,)) if a.get("held") else None
            if hp is not None and j < len(hp.runs):
                rn = hp.runs[j]             # ... and reaches the run through the kept paragraph
                w.stats.hit("c04_held_paragraph_used")
            else:
                rn = ps[i].runs[j]
            pre_runs = [x.text for x in ps[i].runs]
            rn.text = text
            got = tf.paragraphs[i].runs[j].text
            if got != model_run(text):
                w.report("readback|run|%s" % _cls(text, got, model_run(text)),
                         "assigned=%r expected=%r got=%r" % (text, model_run(text), got), CLAUSES["readback"])
            post_runs = [x.text for x in tf.paragraphs[i].runs]
            if [t for k, t in enumerate(post_runs) if k != j] != [t for k, t in enumerate(pre_runs) if k != j]:
                w.report("readback|run|other-runs-changed", "pre=%r post=%r" % (pre_runs, post_runs), CLAUSES["readback"])
    except (O.Skip, ):
        raise
    except (ValueError, TypeError) as e:
        from ..engine import Violation
        if isinstance(e, Violation):
            raise
        import traceback
        w.report("accept|%s|%s" % (level, type(e).__name__), "assigned=%r\n%s" % (text, traceback.format_exc()[-800:]), CLAUSES["accept"])
        return "undoc:%s" % type(e).__name__
    _record(deck, key, tf)
    w.stats.hit("c04_assign_%s" % level)
    if "\n" in text or "\v" in text:
        w.stats.hit("c04_with_breaks")
    if _ESC_RUN.search(text.replace("\v", "")):
        w.stats.hit("c04_with_c0")


def _cls(assigned, got, expected):
    """Root-cause-shaped class of a read-back mismatch (no concrete strings)."""
    feats = []
    if len(got) < len(expected):
        feats.append("shorter")
    elif len(got) > len(expected):
        feats.append("longer")
    else:
        feats.append("same-length")
    for name, ch in (("nl", "\n"), ("vt", "\v"), ("cr", "\r"), ("tab", "\t")):
        if got.count(ch) != expected.count(ch):
            feats.append(name + "-count")
    if got.count("_x") != expected.count("_x"):
        feats.append("escape-count")
    if got.strip() == expected.strip() and got != expected:
        feats.append("edge-whitespace")
    return "+".join(feats)


class TextOracle(Oracle):
    name = "c04"

    def after_event(self, w, ev, outcome):
        op = ev["op"]
        if op.startswith("c04."):
            return
        o = O.OPS.get(op)
        if o is not None and o.family in ("text", "tables", "media", "charts", "slides") and outcome == "ok":
            d_ = w.deck(ev.get("deck", 0))
            if d_ is not None:
                for hk_ in [k for k in d_.handles if k[0] == "c04p"]:
                    del d_.handles[hk_]
            # trusted text-changing (or shape-replacing) operation: refresh recorded readings of that deck
            deck = w.deck(ev.get("deck", 0))
            if deck is not None and deck.alive:
                self._refresh(w, deck)

    def _refresh(self, w, deck):
        m = _memo(deck)
        for k in list(m):
            tf = _frame_for_key(deck.prs, tuple(m[k]["key"]))
            if tf is None:
                del m[k]
            else:
                m[k]["paras"] = _reading(tf)

    def _verify_all(self, w, deck, prs, when):
        m = _memo(deck)
        for k in sorted(m):
            key = tuple(m[k]["key"])
            tf = _frame_for_key(prs, key)
            if tf is None:
                w.report("persist|%s|object-gone|%s" % (when, key[0]), "key=%r" % (key,), CLAUSES["persist"])
                continue
            got = _reading(tf)
            if got != m[k]["paras"]:
                w.report("persist|%s|%s" % (when, key[0]), "key=%r expected=%r got=%r" % (key, m[k]["paras"], got), CLAUSES["persist"])
            w.stats.hit("c04_persist_checks")

    def on_checkpoint(self, w, deck, image, ev):
        import pptx
        from ..disk import SimSource
        prs2 = pptx.Presentation(SimSource(image))
        self._verify_all(w, deck, prs2, "reopened-at-checkpoint")
        # structure through an independent parse of the saved slide parts
        pkg = refpkg.RefPackage.from_bytes(image)
        m = _memo(deck)
        for k in sorted(m):
            key = tuple(m[k]["key"])
            if key[0] != "sp":
                continue
            sl = deck.prs.slides.get(key[1])
            if sl is None:
                continue
            blob = pkg.members.get(str(sl.part.partname))
            if blob is None:
                continue
            root = refpkg.parse(blob)
            A = "{http://schemas.openxmlformats.org/drawingml/2006/main}"
            P = "{http://schemas.openxmlformats.org/presentationml/2006/main}"
            for sp in root.iter(P + "sp"):
                c = sp.find(P + "nvSpPr/" + P + "cNvPr")
                if c is None or c.get("id") != str(key[2]):
                    continue
                body = sp.find(P + "txBody")
                if body is None:
                    break
                paras = body.findall(A + "p")
                exp = m[k]["paras"]
                if len(paras) != len(exp):
                    w.report("structure|saved-xml|paragraph-count", "key=%r a:p=%d expected=%d" % (key, len(paras), len(exp)), CLAUSES["structure"])
                    break
                for pe, t in zip(paras, exp):
                    nbr = len(pe.findall(A + "br"))
                    if nbr != t.count("\v"):
                        w.report("structure|saved-xml|break-count", "key=%r a:br=%d expected=%d text=%r" % (key, nbr, t.count("\v"), t), CLAUSES["structure"])
                w.stats.hit("c04_saved_xml_structure_checks")
                break

    def on_restart(self, w, deck, ev):
        self._verify_all(w, deck, deck.prs, "after-restart")
        w.stats.hit("c04_restart_checks")


def plan(tier):
    if tier == "quick":
        return {"runs": 2500, "budget_s": 75, "chunk": 12}
    return {"runs": 60000, "budget_s": 780, "chunk": 20}


TEXT_DECKS = ["default.pptx", "f-ph-unpopulated-placeholders.pptx", "f-txt-text.pptx", "f-txt-text-frame.pptx", "f-txt-font-props.pptx", "f-tbl-cell.pptx",
              "f-sld-notes.pptx", "f-ph-populated-placeholders.pptx", "f-shp-shapes.pptx", "f-txt-paragraph-spacing.pptx",
              "f-prs-notes.pptx", "t-test.pptx"]


def gen_trace(seed: int, tier: str) -> dict:
    S = Streams(seed)
    r = S("config")
    n = r.randint(8, 25) if tier == "quick" else r.randint(15, 70)
    rs = S("start")
    start = {"deck": rs.choice(["default.pptx"] * 4 + TEXT_DECKS), "form": rs.choice(["stream", "path", "dir"])}
    events, sw = common.gen_history(
        seed, fault_rate=common.fault_arm(seed), n_events=n, families=["c04", "text", "tables", "geometry", "dml"], always=("c04", "text"),
        ckpt=0.08, reopen=0.08, restart=0.04, observe=0.02, jump=0.0, fork=0.03,
        op_filter=lambda name: name not in ("cell_merge", "cell_split", "bad_call"))
    common.rewritten_between_sessions(seed, events, hows=("bool_words", "strip_cell_txBody", "strip_tblPr"))
    # warm-up for table cells and notes
    return {"property": ID, "seed": seed, "tier": tier, "config": {"families": sw["families"], "max_slides": 6, "max_shapes": 20},
            "start": [start], "events": events}


def make_oracles(trace):
    return [TextOracle()]


def nontrivial(trace, res):
    st = res["stats"]
    n = sum(v for k, v in st.items() if k.startswith("c04_assign_"))
    return n >= 2 and (st.get("c04_restart_checks", 0) + st.get("c04_saved_xml_structure_checks", 0)
                       + res["probes"].get("checkpoint_seekable", 0) + res["probes"].get("checkpoint_path", 0)
                       + res["probes"].get("checkpoint_unseekable", 0)) >= 1


PROBES15 = ["", " ", "  lead", "trail  ", "a\nb", "\nlead-break", "trail-break\n", "a\vb", "\v", "\n\n\n", "a\r\nb", "bel\x07",
            "_x0007_ literal", "sep\u2028x", "\U0001F600&<>\"']]>"]


def pinned_traces(tier):
    out = []
    base = [{"op": "add_slide", "layout": 1},
            {"op": "add_textbox", "slide": 0, "x": 0, "y": 0, "cx": 914400, "cy": 914400, "text": "one\ntwo"},
            {"op": "add_table", "slide": 0, "x": 0, "y": 0, "cx": 914400, "cy": 914400, "rows": 2, "cols": 2},
            {"op": "para_prop", "slide": 0, "shape": 0, "para": 0, "prop": "alignment", "v": "CENTER"},
            {"op": "para_prop", "slide": 0, "shape": 0, "para": 0, "prop": "level", "v": 2}]
    for lvl in ("frame", "para", "run", "shape"):
        for tgt in ("sp", "cell", "notes", "ph"):
            evs = list(base)
            for i, t in enumerate(PROBES15):
                evs.append({"op": "c04.assign", "slide": 0, "shape": 0, "target": tgt, "level": lvl, "para": 0, "run": 0,
                            "r": i % 2, "c": 0, "text": t})
                if lvl == "run" and i % 3 == 0:
                    evs.append({"op": "c04.assign", "slide": 0, "shape": 0, "target": tgt, "level": "frame", "para": 0, "run": 0,
                                "r": i % 2, "c": 0, "text": "re\vset"})
                if i % 5 == 4:
                    evs.append({"op": "reopen", "sink": "seekable", "form": "stream"})
            evs.append({"op": "checkpoint", "sink": "seekable"})
            evs.append({"op": "restart", "form": "path"})
            out.append({"property": ID, "seed": "probes-%s-%s" % (lvl, tgt), "tier": "pinned", "config": {"pinned": True},
                        "start": [{"deck": "default"}], "events": evs})
    for tgt in ("sp", "cell"):
        evs = list(base) + [
            {"op": "c04.assign", "slide": 0, "shape": 0, "target": tgt, "level": "frame", "para": 0, "run": 0, "r": 0, "c": 0, "text": "seed"},
            {"op": "c04.assign", "slide": 0, "shape": 0, "target": tgt, "level": "run", "para": 0, "run": 0, "r": 0, "c": 0, "text": "first\nsecond\vthird"},
            {"op": "c04.assign", "slide": 0, "shape": 0, "target": tgt, "level": "frame", "para": 0, "run": 0, "r": 0, "c": 0, "text": "", "same": True},
            {"op": "c04.assign", "slide": 0, "shape": 0, "target": tgt, "level": "para", "para": 0, "run": 0, "r": 0, "c": 0, "text": "", "same": True},
            {"op": "c04.assign", "slide": 0, "shape": 0, "target": tgt, "level": "run", "para": 0, "run": 0, "r": 0, "c": 0, "text": "", "same": True},
            {"op": "checkpoint", "sink": "seekable"}, {"op": "restart"}]
        out.append({"property": ID, "seed": "reassign-same-%s" % tgt, "tier": "pinned", "config": {"pinned": True}, "start": [{"deck": "default"}], "events": evs})
    # run holding a newline, then the PARAGRAPH is assigned its own reading (before any frame-level re-assignment)
    for tgt in ("sp", "cell"):
        evs = list(base) + [
            {"op": "c04.assign", "slide": 0, "shape": 0, "target": tgt, "level": "frame", "para": 0, "run": 0, "r": 0, "c": 0, "text": "seed"},
            {"op": "c04.assign", "slide": 0, "shape": 0, "target": tgt, "level": "run", "para": 0, "run": 0, "r": 0, "c": 0, "text": "a\nb"},
            {"op": "c04.assign", "slide": 0, "shape": 0, "target": tgt, "level": "para", "para": 0, "run": 0, "r": 0, "c": 0, "text": "", "same": True},
            {"op": "checkpoint", "sink": "seekable"}, {"op": "restart"}]
        out.append({"property": ID, "seed": "run-newline-then-paragraph-same-%s" % tgt, "tier": "pinned", "config": {"pinned": True}, "start": [{"deck": "default"}], "events": evs})
    # a kept paragraph: runs read, content changed through it, run reached through it again
    evs = list(base) + [
        {"op": "c04.assign", "slide": 0, "shape": 0, "target": "sp", "level": "frame", "para": 0, "run": 0, "r": 0, "c": 0, "text": "one\ntwo"},
        {"op": "c04.assign", "slide": 0, "shape": 0, "target": "sp", "level": "para", "para": 0, "run": 0, "r": 0, "c": 0, "text": "first", "held": True},
        {"op": "c04.assign", "slide": 0, "shape": 0, "target": "sp", "level": "para", "para": 0, "run": 0, "r": 0, "c": 0, "text": "changed\vtwice", "held": True},
        {"op": "c04.assign", "slide": 0, "shape": 0, "target": "sp", "level": "run", "para": 0, "run": 0, "r": 0, "c": 0, "text": "through-kept-paragraph", "held": True},
        {"op": "c04.assign", "slide": 0, "shape": 0, "target": "sp", "level": "run", "para": 0, "run": 1, "r": 0, "c": 0, "text": "second run", "held": True},
        {"op": "checkpoint", "sink": "seekable"}, {"op": "restart"}]
    out.append({"property": ID, "seed": "kept-paragraph-handle", "tier": "pinned", "config": {"pinned": True}, "start": [{"deck": "default"}], "events": evs})
    # several placeholders that have no text body yet (picture placeholders), on two slides
    evs = [{"op": "add_slide", "layout": 8}, {"op": "add_slide", "layout": 8}]
    for k, (sl_, sh_) in enumerate(((0, 0), (1, 0), (0, 1), (1, 1), (0, 2), (1, 2))):
        evs.append({"op": "c04.assign", "slide": sl_, "shape": sh_, "target": "ph", "level": "frame", "para": 0, "run": 0, "r": 0, "c": 0, "text": "deck text %d" % k})
    evs += [{"op": "checkpoint", "sink": "seekable"}, {"op": "restart"}]
    out.append({"property": ID, "seed": "placeholders-without-text-body", "tier": "pinned", "config": {"pinned": True}, "start": [{"deck": "default"}], "events": evs})
    # table cells without a text body (another producer omits the optional a:txBody of empty cells): each cell assigned, at every level
    evs = list(base) + [{"op": "checkpoint", "sink": "seekable"}, {"op": "restart", "xform": [{"kind": "rewrite_slides", "how": "strip_cell_txBody"}]}]
    k = 0
    for lvl in ("frame", "frame", "para", "frame"):
        for r_, c_ in ((0, 0), (0, 1), (1, 0), (1, 1)):
            evs.append({"op": "c04.assign", "slide": 0, "shape": 0, "target": "cell", "level": lvl, "para": 0, "run": 0, "r": r_, "c": c_, "text": "cell %d\n%s" % (k, lvl)})
            k += 1
    evs += [{"op": "checkpoint", "sink": "seekable"}, {"op": "restart", "xform": [{"kind": "rewrite_slides", "how": "bool_words"}]}]
    out.append({"property": ID, "seed": "cells-without-text-body", "tier": "pinned", "config": {"pinned": True}, "start": [{"deck": "default"}], "events": evs})
    # more than 256 escapable control characters in one run / paragraph / frame / cell
    for tgt in ("sp", "cell"):
        evs = list(base)
        for lvl in ("run", "para", "frame"):
            for unit, n in (("l\r\n", 300), ("\x07", 257), ("\x0b", 600), ("\r", 256)):
                evs.append({"op": "c04.assign", "slide": 0, "shape": 0, "target": tgt, "level": lvl, "para": 0, "run": 0, "r": 0, "c": 0, "text": unit * n})
            evs.append({"op": "checkpoint", "sink": "seekable"})
        evs.append({"op": "restart"})
        out.append({"property": ID, "seed": "many-control-characters-%s" % tgt, "tier": "pinned", "config": {"pinned": True}, "start": [{"deck": "default"}], "events": evs})
    # a save that fails LATE in the archive (after the edited parts were serialised), then more edits, then a save that succeeds
    for tgt in ("sp", "cell", "notes"):
        evs = list(base) + [{"op": "c04.assign", "slide": 0, "shape": 0, "target": tgt, "level": "frame", "para": 0, "run": 0, "r": 0, "c": 0, "text": "before the failed save"}]
        evs += [{"op": "checkpoint", "sink": "seekable"}] + [{"op": "checkpoint", "sink": "seekable", "fault": {"kind": k_, "at": 50, "at_frac": f_, "sticky": False}} for k_, f_ in (("enospc", 0.97), ("eio", 0.995), ("enospc", 0.6))]
        evs += [{"op": "c04.assign", "slide": 0, "shape": 0, "target": tgt, "level": "frame", "para": 0, "run": 0, "r": 0, "c": 0, "text": "after the failed save\nsecond"},
                {"op": "checkpoint", "sink": "seekable"}, {"op": "restart"}]
        out.append({"property": ID, "seed": "late-failed-save-then-edit-%s" % tgt, "tier": "pinned", "config": {"pinned": True}, "start": [{"deck": "default"}], "events": evs})
    # text assigned to the cells of a merged range: the origin AND the spanned cells (they keep what they are given)
    evs = [{"op": "add_slide", "layout": 6}, {"op": "add_table", "slide": 0, "x": 0, "y": 0, "cx": 914400, "cy": 914400, "rows": 3, "cols": 3},
           {"op": "cell_merge", "slide": 0, "shape": 0, "r": 0, "c": 0, "r2": 1, "c2": 1}]
    for k, (r_, c_) in enumerate(((0, 0), (0, 1), (1, 0), (1, 1), (2, 2), (0, 1))):
        evs.append({"op": "c04.assign", "slide": 0, "shape": 0, "target": "cell", "level": ("frame", "para", "shape", "run")[k % 4], "para": 0, "run": 0, "r": r_, "c": c_,
                    "text": "cell %d%d\nsecond" % (r_, c_)})
    evs += [{"op": "checkpoint", "sink": "seekable"}, {"op": "restart"}]
    out.append({"property": ID, "seed": "cells-of-a-merged-range", "tier": "pinned", "config": {"pinned": True}, "start": [{"deck": "default"}], "events": evs})
    return out
