"""Shared history generator (scheduler) for the properties that run on the full op alphabet."""
from __future__ import annotations

import os
import random

from .. import ops as opsmod
from ..engine import DECKS
from ..rng import Streams

FAMILIES = ["slides", "shapes", "media", "charts", "tables", "geometry", "text", "dml", "actions",
            "package", "rejected"]

_corpus = None


def corpus_decks():
    """Names of all vendored corpus decks (sorted, stable)."""
    global _corpus
    if _corpus is None:
        _corpus = sorted(f for f in os.listdir(DECKS) if f.endswith(".pptx"))
    return _corpus


def swarm_weights(r: random.Random, families=None, always=()):
    """Per-run op weights: a random subset of families is enabled with random emphasis."""
    fams = list(families or FAMILIES)
    enabled = {f for f in fams if r.random() < 0.6} | set(always)
    if not enabled:
        enabled = {r.choice(fams)}
    emph = {f: r.choice([0.5, 1, 1, 2, 4]) for f in sorted(enabled)}
    names, weights = [], []
    for name, o in sorted(opsmod.OPS.items()):
        if o.family in enabled:
            names.append(name)
            weights.append(o.weight * emph[o.family])
    return names, weights, sorted(enabled)


def fault_arm(seed: int, share: float = 0.3, rate: float = 0.3) -> float:
    """Fault-free and fault-injecting configurations are separate runs: `share` of the seeds inject storage faults into their
    checkpoints (ENOSPC / EIO once or sticky, /dev/full, crash with a torn write), the others none."""
    return rate if Streams(seed)("fault-arm").random() < share else 0.0


def rewritten_between_sessions(seed: int, events: list, hows=("bool_words", "strip_tblPr", "strip_cell_txBody"), rate: float = 0.3) -> None:
    """Between two sessions the stored file is rewritten by another producer in an equivalent spelling (restart / reopen events get an
    `xform`): xsd:boolean values as words, optional children omitted."""
    rx = Streams(seed)("rewrite-between-sessions")
    for e in events:
        if e["op"] in ("restart", "reopen") and "xform" not in e and rx.random() < rate:
            h = rx.choice(list(hows))
            e["xform"] = [{"kind": "rewrite_charts", "how": h[7:]}] if h.startswith("charts:") else [{"kind": "rewrite_slides", "how": h}]


def gen_history(seed: int, *, n_events, families=None, always=(), start=None, fault_rate=0.0,
                src_fault_rate=0.0, ckpt=0.12, reopen=0.05, restart=0.03, observe=0.03, jump=0.02,
                fork=0.01, every_event_ckpt=False, forms=("stream", "stream", "path", "dir", "dirlink", "path_keep"),
                op_filter=None, held_rate=None, warmup=True):
    """Return (events, swarm description)."""
    S = Streams(seed)
    r_ops, r_sched, r_faults, r_clock = S("ops"), S("sched"), S("faults"), S("clock")
    names, weights, enabled = swarm_weights(S("swarm"), families, always)
    if op_filter:
        pairs = [(n, w_) for n, w_ in zip(names, weights) if op_filter(n)]
        names, weights = [p[0] for p in pairs], [p[1] for p in pairs]
    events = []

    def dt():
        return round(r_clock.expovariate(1 / 30.0), 3)

    last_creates = False
    last_ckpt = False
    ndecks = 1
    n_sink_writes = 300

    if warmup:
        r_w = S("warmup")
        for _ in range(r_w.choice([1, 1, 2, 3])):
            events.append({"op": "add_slide", "layout": r_w.choice([0, 1, 1, 5, 6, 8, r_w.randint(0, 10)]), "dt": dt()})
        kit = {"text": ["add_textbox", "add_shape"], "dml": ["add_shape"], "geometry": ["add_shape", "add_connector"],
               "actions": ["add_textbox"], "tables": ["add_table"], "charts": ["add_chart"], "media": ["add_picture"],
               "shapes": ["add_group", "add_connector"]}
        for fam in enabled:
            for name in kit.get(fam, []):
                if r_w.random() < 0.8:
                    ev = opsmod.gen_op_event(r_w, name)
                    ev.pop("group", None)
                    ev["held"] = False
                    if name == "add_textbox" and ev.get("text") is None:
                        ev["text"] = "warm\nup"
                    ev["dt"] = dt()
                    events.append(ev)
        n_events += len(events)
    while len(events) < n_events:
        k = r_sched.random()
        p_ck = ckpt * (3 if last_creates else 1) + (0.2 if last_ckpt else 0)
        deck = r_sched.randrange(ndecks) if ndecks > 1 else 0
        ev = None
        if k < p_ck:
            ev = {"op": "checkpoint"}
            ev.update(opsmod.gen_sink(r_faults, fault_rate, n_sink_writes))
            last_ckpt, last_creates = True, False
        elif k < p_ck + reopen:
            ev = {"op": "reopen", "form": r_sched.choice(forms), "pos": r_sched.choice([0, 0, 5, 10 ** 7])}
            ev.update({"sink": r_faults.choice(["seekable", "unseekable", "path"])})
            last_ckpt, last_creates = False, False
        elif k < p_ck + reopen + restart:
            ev = {"op": "restart", "form": r_sched.choice(forms), "pos": r_sched.choice([0, 0, 5, 10 ** 7])}
            last_ckpt = False
        elif k < p_ck + reopen + restart + observe:
            ev = {"op": "observe", "deep": r_sched.random() < 0.7}
        elif k < p_ck + reopen + restart + observe + jump:
            mag = r_clock.choice([3600, 86400, 86400 * 365, 86400 * 3650, 60])
            ev = {"op": "clock_jump", "by": r_clock.choice([-1, 1]) * mag * r_clock.random()}
        elif k < p_ck + reopen + restart + observe + jump + 0.01:
            ev = {"op": "clobber_source", "how": r_faults.choice(["garbage", "truncate", "delete"])}
        elif k < p_ck + reopen + restart + observe + jump + 0.01 + fork and ndecks < 2:
            ev = {"op": "fork", "sink": "seekable"}
            ndecks = 2
        else:
            name = r_ops.choices(names, weights)[0]
            ev = opsmod.gen_op_event(r_ops, name)
            o = opsmod.OPS[name]
            last_creates, last_ckpt = o.creates, False
            if src_fault_rate:
                for key in ("src", "psrc", "isrc"):
                    if key in ev and r_faults.random() < src_fault_rate:
                        ev[key] = opsmod.g_src(r_faults, 1.0)
            if held_rate is not None and "held" in ev:
                ev["held"] = r_sched.random() < held_rate
            if any(isinstance(ev.get(k_), dict) and ev[k_].get("fault") for k_ in ("src", "psrc", "isrc")) and r_sched.random() < 0.7:
                # a fault inside an operation that creates in-flight state: save right after it, before anything can heal it
                ev["dt"] = dt()
                events.append(ev)
                ev = {"op": "checkpoint", "sink": "seekable"}
                last_ckpt, last_creates = True, False
        if deck and "deck" not in ev:
            ev["deck"] = deck
        ev["dt"] = dt()
        events.append(ev)
        if every_event_ckpt and ev["op"] not in ("checkpoint", "reopen", "restart", "fork"):
            events.append({"op": "checkpoint", "sink": "seekable", "dt": 0.001, "deck": ev.get("deck", 0)})
    # bounded liveness: once faults stop, the next save succeeds and yields a complete image
    for d in range(ndecks):
        events.append({"op": "checkpoint", "sink": "seekable", "deck": d, "dt": 1.0})
    return events, {"families": enabled}


def start_recipe(r: random.Random, pool="default", xform_rate=0.0):
    """Pick a start deck. pool: 'default' | 'corpus' | 'mixed'"""
    decks = corpus_decks()
    if pool == "default" or (pool == "mixed" and r.random() < 0.5):
        rec = {"deck": "default"}
    else:
        rec = {"deck": r.choice(decks)}
    rec["form"] = r.choice(["stream", "stream", "path", "dir", "dirlink", "path_keep"])
    if rec["form"] == "stream":
        rec["pos"] = r.choice([0, 0, 3, 10 ** 7])
    if r.random() < xform_rate:
        rec["xform"] = [{"kind": "rename_slides", "mode": r.choice(["reverse", "rotate", "gaps", "shuffle", "lastfits", "firstbig", "midnext", "midnext2"]),
                         "seed": r.randint(0, 99)}]
    if r.random() < xform_rate:
        # another producer's numbering of the other part families (holes below the maximum, number 1 free, sparse)
        rec.setdefault("xform", [])
        for fam in r.sample(["charts", "themes", "notes", "media", "embeddings", "layouts", "masters"], r.choice([1, 2, 3])):
            rec["xform"].append({"kind": "renumber", "family": fam, "mode": r.choice(["odd", "shift", "sparse", "reverse"]), "seed": r.randint(0, 99)})
    if r.random() < xform_rate * 0.4:
        rec.setdefault("xform", []).insert(0, {"kind": "unlist_slide", "k": r.randint(0, 5)})
    if r.random() < xform_rate * 0.3:
        rec.setdefault("xform", []).insert(0, {"kind": "layout_logo", "k": r.randint(0, 11), "seed": r.randint(0, 9)})   # a template with a logo
    if r.random() < xform_rate * 0.4:
        rec.setdefault("xform", []).append({"kind": "respell_targets", "style": r.choice(["mixed", "abs", "dot", "updown"]), "seed": r.randint(0, 99)})
    if r.random() < xform_rate * 0.3:
        rec.setdefault("xform", []).append({"kind": "explicit_internal", "rate": r.choice([0.5, 1.0]), "seed": r.randint(0, 99)})
    if r.random() < xform_rate * 0.3:
        rec.setdefault("xform", []).append({"kind": "respell_package_xml", "style": r.choice(["mixed", "prefixed", "multiline", "utf16"]), "seed": r.randint(0, 99)})
    if r.random() < xform_rate * 0.6:
        rec.setdefault("xform", []).append({"kind": "respell_rids", "style": r.choice(["mixed", "hex", "padded", "sparse", "words"]), "seed": r.randint(0, 99)})
    return rec
