"""Operation alphabet: public-API operations + scheduler events.

Every op has: gen(r) -> args (state-independent selectors: indices are taken modulo what exists at
execution time, so any subsequence of a trace is executable) and run(w, deck, a) -> outcome.

Outcome classes:  ok | skip:<why> | rejected:<Exc> (documented exception) |
                  iofault:<Exc> (injected source fault surfaced) | undoc:<Exc> (diagnostic)
"""
from __future__ import annotations

import os
import random
import traceback

from . import gens
from .disk import SimCrash, SimSource
from .engine import HarnessError, Violation, sha
from .rng import xml_text

OPS: dict[str, "Op"] = {}
SRC_PREFIX = None  # set on first use: directory of the pptx package


class Skip(Exception):
    pass


class Op:
    def __init__(self, name, family, gen, run, expects=(), weight=1.0, creates=False):
        self.name, self.family, self.gen, self.run = name, family, gen, run
        self.expects = tuple(expects)
        self.weight = weight
        self.creates = creates  # creates parts/relationships (checkpoint placement bias)


def op(name, family, expects=(), weight=1.0, creates=False):
    def deco(run):
        gen = run.__dict__.get("gen") or (lambda r: {})
        OPS[name] = Op(name, family, gen, run, expects, weight, creates)
        return run
    return deco


def gen(fn):
    """attach generator: used as @gen(lambda r: {...}) below @op"""
    def deco(run):
        run.gen = fn
        return run
    return deco


# ---- selectors ------------------------------------------------------------------------------------

def pick(lst, i):
    if not lst:
        raise Skip("empty")
    return lst[i % len(lst)]


def slides_of(deck):
    deck.slides_accessed = True
    return list(deck.prs.slides)


def attached(proxy) -> bool:
    try:
        el = proxy.element
        root = proxy.part._element
    except Exception:  # noqa: BLE001
        return False
    while el is not None:
        if el is root:
            return True
        el = el.getparent()
    return False


def nav_slide(w, deck, a):
    sl = pick(slides_of(deck), a.get("slide", 0))
    if a.get("held"):
        key = ("slide", a.get("actor", 0), sl.slide_id)
        h = deck.handles.get(key)
        if h is not None:
            w.stats.hit("held_slide_used")
            return h
        deck.handles[key] = sl
    return sl


def nav_shapes(w, deck, a):
    sl = nav_slide(w, deck, a)
    if a.get("held"):
        key = ("shapes", a.get("actor", 0), sl.slide_id)
        h = deck.handles.get(key)
        if h is not None:
            w.stats.hit("held_shapes_used")
            return sl, h
        deck.handles[key] = sl.shapes
        return sl, deck.handles[key]
    return sl, sl.shapes


def walk_shapes(shapes, depth=0):
    for sh in shapes:
        yield sh
        if type(sh).__name__ == "GroupShape" and depth < 6:
            yield from walk_shapes(sh.shapes, depth + 1)


KIND_PRED = {
    "any": lambda s: True,
    "text": lambda s: s.has_text_frame,
    "auto": lambda s: type(s).__name__ == "Shape",
    "pic": lambda s: type(s).__name__ in ("Picture", "PlaceholderPicture"),
    "group": lambda s: type(s).__name__ == "GroupShape",
    "cxn": lambda s: type(s).__name__ == "Connector",
    "chart": lambda s: getattr(s, "has_chart", False),
    "table": lambda s: getattr(s, "has_table", False),
    "ph": lambda s: s.is_placeholder,
    "nongroup": lambda s: type(s).__name__ != "GroupShape",
    "filled": lambda s: type(s).__name__ in ("Shape", "SlidePlaceholder"),
    "lined": lambda s: type(s).__name__ in ("Shape", "Connector", "Picture", "SlidePlaceholder"),
}


def nav_shape(w, deck, a, kind="any"):
    """Shape of `kind`: on the selected slide if it has one, else on the next slide (wrapping) that has."""
    sls = slides_of(deck)
    if not sls:
        raise Skip("no slides")
    i0 = a.get("slide", 0) % len(sls)
    sl = cands = None
    for k in range(len(sls)):
        sl = sls[(i0 + k) % len(sls)]
        cands = [s for s in walk_shapes(sl.shapes) if KIND_PRED[kind](s)]
        if cands:
            break
    if not cands:
        raise Skip("no %s shape" % kind)
    sh = pick(cands, a.get("shape", 0))
    if a.get("held"):
        key = ("shape", a.get("actor", 0), sl.slide_id, sh.shape_id, type(sh).__name__)
        h = deck.handles.get(key)
        if h is not None and attached(h):
            w.stats.hit("held_shape_used")
            return sl, h
        deck.handles[key] = sh
    return sl, sh


def nav_paragraph(w, deck, a, create=False):
    sl, sh = nav_shape(w, deck, a, "text")
    tf = sh.text_frame
    ps = tf.paragraphs
    return sl, sh, tf, pick(ps, a.get("para", 0))


def nav_run(w, deck, a):
    """A run: prefer the selected paragraph; fall back to any paragraph of the frame that has runs."""
    sl, sh = nav_shape(w, deck, a, "text")
    tf = sh.text_frame
    ps = list(tf.paragraphs)
    if not ps:
        raise Skip("no paragraphs")
    i0 = a.get("para", 0) % len(ps)
    for k in range(len(ps)):
        p = ps[(i0 + k) % len(ps)]
        rs = p.runs
        if rs:
            return sl, sh, tf, p, pick(rs, a.get("run", 0))
    raise Skip("no runs")


def nav_placeholder(w, deck, a, method):
    sls = slides_of(deck)
    if not sls:
        raise Skip("no slides")
    i0 = a.get("slide", 0) % len(sls)
    for k in range(len(sls)):
        sl = sls[(i0 + k) % len(sls)]
        phs = [p for p in sl.placeholders if hasattr(p, method)]
        if phs:
            return sl, pick(phs, a.get("shape", 0))
    raise Skip("no placeholder with %s" % method)


def emu(r, lo=0, hi=9144000):
    k = r.random()
    if k < 0.1:
        return r.choice([0, 1, lo, hi, 914400, 12700])
    return r.randint(lo, hi)


def g_sl(r):
    return {"slide": r.randint(0, 7), "held": r.random() < 0.3, "actor": r.randint(0, 2)}


def g_sh(r):
    d = g_sl(r)
    d["shape"] = r.randint(0, 11)
    return d


def g_box(r):
    return {"x": emu(r), "y": emu(r, 0, 6858000), "cx": emu(r, 0, 6000000), "cy": emu(r, 0, 4000000)}


# ---- slides ---------------------------------------------------------------------------------------

@op("add_slide", "slides", creates=True, weight=2.0)
@gen(lambda r: {"layout": r.randint(0, 15)})
def _add_slide(w, deck, a):
    prs = deck.prs
    layouts = [l for m in prs.slide_masters for l in m.slide_layouts]
    layout = pick(layouts, a["layout"])
    if len(prs.slides) >= w.cfg.get("max_slides", 12):
        raise Skip("max slides")
    deck.slides_accessed = True
    prs.slides.add_slide(layout)


@op("slide_name", "slides")
@gen(lambda r: dict(g_sl(r), name=xml_text(r, 20)))
def _slide_name(w, deck, a):
    nav_slide(w, deck, a).name = a["name"]


@op("notes_text", "slides", creates=True)
@gen(lambda r: dict(g_sl(r), text=xml_text(r, 30) + r.choice(["", "\n", "\nline2"])))
def _notes_text(w, deck, a):
    sl = nav_slide(w, deck, a)
    ns = sl.notes_slide
    tf = ns.notes_text_frame
    if tf is None:
        raise Skip("no notes body")
    tf.text = a["text"]


@op("notes_access", "slides", creates=True)
@gen(g_sl)
def _notes_access(w, deck, a):
    sl = nav_slide(w, deck, a)
    ns = sl.notes_slide
    _ = [s.name for s in ns.shapes]
    _ = ns.notes_placeholder


@op("background_fill", "slides", weight=1.5)
@gen(lambda r: dict(g_sl(r), mode=r.choice(["solid", "solid", "gradient", "patterned", "follow", "read"]),
                    where=r.choice(["slide", "slide", "slide", "layout", "master", "notes_master", "notes_slide"]),
                    rgb="%06X" % r.randint(0, 0xFFFFFF)))
def _background(w, deck, a):
    from pptx.dml.color import RGBColor
    sl = nav_slide(w, deck, a)
    where = a.get("where", "slide")
    if where == "layout":
        sl = sl.slide_layout
    elif where == "master":
        sl = sl.slide_layout.slide_master
    elif where == "notes_master":
        sl = deck.prs.notes_master
    elif where == "notes_slide":
        sl = sl.notes_slide
    if a["mode"] == "follow":
        if where == "slide":
            _ = sl.follow_master_background
        return
    fill = sl.background.fill
    if a["mode"] == "read":
        _ = fill.type
        return
    if a["mode"] == "solid":
        fill.solid()
        fill.fore_color.rgb = RGBColor.from_string(a["rgb"])
    elif a["mode"] == "gradient":
        fill.gradient()
    else:
        fill.patterned()


@op("remove_layout", "slides", expects=(ValueError,))
@gen(lambda r: {"layout": r.randint(0, 15)})
def _remove_layout(w, deck, a):
    prs = deck.prs
    m = prs.slide_masters[0]
    layouts = list(m.slide_layouts)
    if len(layouts) <= 2:
        raise Skip("few layouts")
    m.slide_layouts.remove(pick(layouts, a["layout"]))


@op("slide_size", "package")
@gen(lambda r: {"w": r.choice([914400, 51206399, r.randint(914400, 20000000)]), "h": r.choice([914400, 51206399, r.randint(914400, 20000000)])})
def _slide_size(w, deck, a):
    deck.prs.slide_width = a["w"]
    deck.prs.slide_height = a["h"]


CORE_STR = ["author", "category", "comments", "content_status", "identifier", "keywords", "language",
            "last_modified_by", "subject", "title", "version"]


@op("core_props", "package", creates=True)
@gen(lambda r: {"prop": r.choice(CORE_STR), "value": xml_text(r, 30)})
def _core_props(w, deck, a):
    cp = deck.prs.core_properties
    setattr(cp, a["prop"], a["value"])
    _ = cp.modified


# ---- shapes: creation -----------------------------------------------------------------------------

def _autoshape_names():
    from pptx.enum.shapes import MSO_SHAPE
    return sorted(m.name for m in MSO_SHAPE)


_AS = None


def autoshape_member(name_or_index):
    global _AS
    from pptx.enum.shapes import MSO_SHAPE
    if _AS is None:
        _AS = _autoshape_names()
    if isinstance(name_or_index, int):
        return getattr(MSO_SHAPE, _AS[name_or_index % len(_AS)])
    return getattr(MSO_SHAPE, name_or_index)


def target_shapes(w, deck, a):
    """Shape collection to add into: slide.shapes or a (possibly nested) group's shapes."""
    sl, shapes = nav_shapes(w, deck, a)
    if a.get("turbo") and a.get("held") and not shapes.turbo_add_enabled:
        shapes.turbo_add_enabled = True
        w.stats.hit("turbo_on")
    elif a.get("turbo") and a.get("held") and a.get("turbo_resync") and shapes.turbo_add_enabled:
        # the caller switches the mode on again while it is on (what one does after adding through another route): ids start from the
        # present maximum again
        shapes.turbo_add_enabled = True
        w.scratch["turbo_resynced_at"] = w.cur_event_index
        w.stats.hit("turbo_resynced")
    g = a.get("group")
    if g is not None:
        groups = [s for s in walk_shapes(sl.shapes) if type(s).__name__ == "GroupShape"]
        if groups:
            return sl, pick(groups, g).shapes
    n = sum(1 for _ in walk_shapes(sl.shapes))
    if n >= w.cfg.get("max_shapes", 40):
        raise Skip("max shapes")
    return sl, shapes


def g_add(r):
    d = g_sl(r)
    d.update(g_box(r))
    if r.random() < 0.25:
        d["group"] = r.randint(0, 3)
    return d


@op("add_shape", "shapes", weight=2.0)
@gen(lambda r: dict(g_add(r), type=r.randint(0, 200)))
def _add_shape(w, deck, a):
    sl, shapes = target_shapes(w, deck, a)
    shapes.add_shape(autoshape_member(a["type"]), a["x"], a["y"], a["cx"], a["cy"])


@op("add_textbox", "shapes", weight=2.0)
@gen(lambda r: dict(g_add(r), text=r.choice([None, xml_text(r, 20)])))
def _add_textbox(w, deck, a):
    sl, shapes = target_shapes(w, deck, a)
    tb = shapes.add_textbox(a["x"], a["y"], a["cx"], a["cy"])
    if a.get("text") is not None:
        tb.text_frame.text = a["text"]


def _source_arg(w, data: bytes, a: dict, key="src", fname="file.bin"):
    """path or stream argument according to a[key] = {"via": "path"|"stream", "pos": n, "fault": {...}, "fname": str}"""
    s = a.get(key) or {}
    via = s.get("via", "stream")
    fault = s.get("fault")
    if via == "buffer" and fault:
        via = "stream"      # faults are injected through the simulated stream object
    if via == "buffer":
        # one io.BytesIO the caller keeps and refills for every call ("render each picture into the same buffer")
        import io
        buf = w.scratch.get("reused_buffer")
        if buf is None:
            buf = w.scratch["reused_buffer"] = io.BytesIO()
        buf.seek(0)
        buf.truncate()
        buf.write(data)
        buf.seek(s.get("pos", 0) if s.get("pos", 0) <= len(data) else 0)
        w.stats.hit("source_buffer_object_reused")
        return buf, None
    if via == "path":
        if fault and fault.get("kind") == "missing":
            w.faults.hit("source_missing_path")
            return os.path.join(w_scratch(), "does-not-exist-" + s.get("fname", fname)), None
        name = s.get("fname", fname)
        if fault and fault.get("kind") == "eof":
            data = data[: fault["at"]]
            w.faults.hit("source_eof")
        w.disk.put("in/" + name, data)
        p = os.path.join(w_scratch(), name)
        with open(p, "wb") as f:
            f.write(data)
        from .disk import _stamp
        _stamp(p)       # file times are simulated storage state too (whole seconds of the simulated clock)
        return p, p
    return SimSource(data, pos=s.get("pos", 0), fault=fault if fault and fault.get("kind") != "missing" else None,
                     counters=w.faults), None


def w_scratch():
    from .disk import scratch_dir
    return scratch_dir()


def g_src(r, fault_rate=0.0, nbytes_hint=200):
    d = {"via": r.choice(["stream", "stream", "path", "buffer"]), "pos": r.choice([0, 0, 7, 10 ** 6])}
    if d["via"] == "path":
        d["fname"] = "in%d.%s" % (r.randint(0, 3), r.choice(gens.MISLEADING_EXT))
    if r.random() < fault_rate:
        k = r.random()
        if d["via"] == "path":
            d["fault"] = {"kind": "missing"} if k < 0.5 else {"kind": "eof", "at": r.randint(0, nbytes_hint)}
        else:
            # an error on the 2nd/3rd read call only fires if the code under test reads in pieces
            d["fault"] = {"kind": "eio", "at": r.choice([1, 1, 2, 3])} if k < 0.5 else {"kind": "eof", "at": r.randint(0, nbytes_hint)}
    return d


IO_EXC = (OSError, )


def existing_media(deck):
    """Bytes of the Pillow-readable images the start deck already holds (slides, layouts, masters, notes master), in member order."""
    import io
    import zipfile
    from PIL import Image
    out = []
    try:
        z = zipfile.ZipFile(io.BytesIO(deck.start_image))
    except Exception:  # noqa: BLE001
        return out
    for n in sorted(z.namelist()):
        if n.startswith("ppt/media/"):
            b = z.read(n)
            try:
                if Image.open(io.BytesIO(b)).format in ("PNG", "JPEG", "GIF", "BMP", "TIFF"):
                    out.append(b)
            except Exception:  # noqa: BLE001
                continue
    return out


@op("add_picture", "media", creates=True, weight=2.0, expects=())
@gen(lambda r: dict(g_add(r), img=gens.gen_image_recipe(r), src=g_src(r),
                    size=r.choice(["none", "none", "w", "h", "both"]), existing=r.choice([None] * 8 + [0, 1])))
def _add_picture(w, deck, a):
    sl, shapes = target_shapes(w, deck, a)
    data = gens.image_bytes(a["img"])
    if a.get("existing") is not None:
        med = existing_media(deck)
        if med:
            data = med[a["existing"] % len(med)]      # the same bytes as an image the deck already holds somewhere
            w.stats.hit("added_bytes_the_deck_already_holds")
    f, tmp = _source_arg(w, data, a, fname="pic.img")
    try:
        cx = a["cx"] or 1 if a["size"] in ("w", "both") else None
        cy = a["cy"] or 1 if a["size"] in ("h", "both") else None
        shapes.add_picture(f, a["x"], a["y"], cx, cy)
    finally:
        if tmp and os.path.exists(tmp):
            os.unlink(tmp)


@op("add_connector", "shapes")
@gen(lambda r: dict(g_add(r), type=r.choice(["STRAIGHT", "ELBOW", "CURVE"]), ex=emu(r), ey=emu(r, 0, 6858000)))
def _add_connector(w, deck, a):
    from pptx.enum.shapes import MSO_CONNECTOR
    sl, shapes = target_shapes(w, deck, a)
    shapes.add_connector(getattr(MSO_CONNECTOR, a["type"]), a["x"], a["y"], a["ex"], a["ey"])


@op("connect", "shapes")
@gen(lambda r: dict(g_sh(r), other=r.randint(0, 9), site=r.randint(0, 3), end=r.choice(["begin", "end"])))
def _connect(w, deck, a):
    sl, cx = nav_shape(w, deck, a, "cxn")
    autos = [s for s in sl.shapes if type(s).__name__ == "Shape"]
    tgt = pick(autos, a["other"])
    if a["end"] == "begin":
        cx.begin_connect(tgt, a["site"])
    else:
        cx.end_connect(tgt, a["site"])


@op("add_group", "shapes")
@gen(lambda r: dict(g_add(r), n=r.randint(0, 3), boxes=[g_box(r) for _ in range(3)]))
def _add_group(w, deck, a):
    from pptx.enum.shapes import MSO_SHAPE
    sl, shapes = target_shapes(w, deck, a)
    grp = shapes.add_group_shape()
    for i in range(a["n"]):
        b = a["boxes"][i]
        if i % 2:
            grp.shapes.add_textbox(b["x"], b["y"], b["cx"], b["cy"])
        else:
            grp.shapes.add_shape(MSO_SHAPE.RECTANGLE, b["x"], b["y"], b["cx"], b["cy"])


@op("group_existing", "shapes")
@gen(lambda r: dict(g_sl(r), members=[r.randint(0, 9) for _ in range(r.randint(1, 3))]))
def _group_existing(w, deck, a):
    sl, shapes = nav_shapes(w, deck, a)
    top = [s for s in sl.shapes if not s.is_placeholder]
    if not top:
        raise Skip("nothing to group")
    chosen = []
    for m in a["members"]:
        s = pick(top, m)
        if all(s.shape_id != c.shape_id for c in chosen):
            chosen.append(s)
    shapes.add_group_shape(chosen)


@op("add_freeform", "shapes")
@gen(lambda r: dict(g_add(r), sx=r.choice([0, 10, -5, 2.5]), sy=r.choice([0, 7, -3]),
                    scale=r.choice([1.0, 100.0, 914.4, [2.0, 0.5], 0.5]),
                    contours=[[[r.randint(-100, 300), r.randint(-100, 300)] for _ in range(r.randint(1, 4))]
                              for _ in range(r.randint(1, 2))],
                    close=r.random() < 0.7, ox=emu(r, 0, 3000000), oy=emu(r, 0, 3000000)))
def _add_freeform(w, deck, a):
    sl, shapes = target_shapes(w, deck, a)
    sc = a["scale"]
    fb = shapes.build_freeform(a["sx"], a["sy"], scale=tuple(sc) if isinstance(sc, list) else sc)
    for i, c in enumerate(a["contours"]):
        if i > 0:
            fb.move_to(c[0][0], c[0][1])
        fb.add_line_segments([tuple(p) for p in c], close=a["close"])
    fb.convert_to_shape(a["ox"], a["oy"])


@op("add_table", "tables", weight=1.5)
@gen(lambda r: dict(g_sl(r), **g_box(r), rows=r.randint(1, 5), cols=r.randint(1, 5)))
def _add_table(w, deck, a):
    sl, shapes = nav_shapes(w, deck, a)
    if sum(1 for _ in walk_shapes(sl.shapes)) >= w.cfg.get("max_shapes", 40):
        raise Skip("max shapes")
    shapes.add_table(a["rows"], a["cols"], a["x"], a["y"], a["cx"], a["cy"])


def g_chart(r, types=None):
    t = r.choice(types or gens.ALL_CHART_TYPES)
    kind = gens.chart_kind(t)
    return {"type": t, "data": gens.gen_chart_data(r, kind, min_series=1 if t in gens.PIE_TYPES else 0)}


def _needs_category(a):
    d = a["data"]
    return d["kind"] == "cat" and not isinstance(d["categories"], dict) and len(d["categories"]) == 0


@op("add_chart", "charts", creates=True, weight=1.5)
@gen(lambda r: dict(g_add(r), **g_chart(r)))
def _add_chart(w, deck, a):
    from pptx.enum.chart import XL_CHART_TYPE
    sl, shapes = target_shapes(w, deck, a)
    cd = gens.build_chart_data(a["data"])
    shapes.add_chart(getattr(XL_CHART_TYPE, a["type"]), a["x"], a["y"], a["cx"], a["cy"], cd)


@op("replace_data", "charts", creates=True, weight=1.5)
@gen(lambda r: dict(g_sh(r), datas={k: gens.gen_chart_data(r, k) for k in ("cat", "xy", "bubble")}))
def _replace_data(w, deck, a):
    sl, sh = nav_shape(w, deck, a, "chart")
    chart = sh.chart
    ct = chart.chart_type.name
    kind = gens.chart_kind(ct) if ct in gens.ALL_CHART_TYPES else "cat"
    if ct not in gens.ALL_CHART_TYPES and w.cfg.get("replace_only_writable", True):
        raise Skip("chart type not writable")
    rec = a["datas"][kind]
    if ct in gens.PIE_TYPES and not rec["series"]:
        raise Skip("pie needs series")
    chart.replace_data(gens.build_chart_data(rec))


@op("add_movie", "media", creates=True)
@gen(lambda r: dict(g_sl(r), **g_box(r), movie={"seed": r.randint(0, 3), "len": r.choice([0, 1, 64, 500])},
                    src=g_src(r), poster=r.choice([None, gens.gen_image_recipe(r)]), psrc=g_src(r),
                    mime=r.choice(["video/mp4", "video/unknown", "video/quicktime", "video/x-ms-wmv"])))
def _add_movie(w, deck, a):
    sl, shapes = nav_shapes(w, deck, a)
    if sum(1 for _ in walk_shapes(sl.shapes)) >= w.cfg.get("max_shapes", 40):
        raise Skip("max shapes")
    src = dict(a.get("src") or {})
    src["pos"] = 0  # add_movie reads a stream from its current position (API assumption)
    a2 = dict(a, src=src)
    f, tmp = _source_arg(w, gens.blob_bytes(a["movie"]), a2, fname="movie.mp4")
    pf, ptmp = None, None
    if a.get("poster"):
        pf, ptmp = _source_arg(w, gens.image_bytes(a["poster"]), a, key="psrc", fname="poster.img")
    try:
        shapes.add_movie(f, a["x"], a["y"], a["cx"], a["cy"], poster_frame_image=pf, mime_type=a["mime"])
    finally:
        for t in (tmp, ptmp):
            if t and os.path.exists(t):
                os.unlink(t)


@op("add_ole", "media", creates=True)
@gen(lambda r: dict(g_add(r), blob={"seed": r.randint(0, 3), "len": r.choice([0, 10, 300])}, src=g_src(r),
                    prog=r.choice(["XLSX", "DOCX", "PPTX", "Package", "Adobe.Exchange.7", xml_text(r, 12, False)]),
                    icon=r.choice([None, None, gens.gen_image_recipe(r)]), isrc=g_src(r),
                    sized=r.random() < 0.5))
def _add_ole(w, deck, a):
    from pptx.enum.shapes import PROG_ID
    sl, shapes = target_shapes(w, deck, a)
    prog = getattr(PROG_ID, a["prog"]) if a["prog"] in ("XLSX", "DOCX", "PPTX") else a["prog"]
    f, tmp = _source_arg(w, gens.blob_bytes(a["blob"]), a, fname="obj.bin")
    icf, itmp = None, None
    if a.get("icon"):
        icf, itmp = _source_arg(w, gens.image_bytes(a["icon"]), a, key="isrc", fname="icon.img")
    try:
        kw = {}
        if a["sized"] or isinstance(prog, str):
            kw = {"width": a["cx"] or 1, "height": a["cy"] or 1}
        shapes.add_ole_object(f, prog, a["x"], a["y"], icon_file=icf, **kw)
    finally:
        for t in (tmp, itmp):
            if t and os.path.exists(t):
                os.unlink(t)


@op("ph_insert_picture", "media", creates=True)
@gen(lambda r: dict(g_sh(r), img=gens.gen_image_recipe(r), src=g_src(r)))
def _ph_insert_picture(w, deck, a):
    sl, ph = nav_placeholder(w, deck, a, "insert_picture")
    f, tmp = _source_arg(w, gens.image_bytes(a["img"]), a, fname="ph.img")
    try:
        ph.insert_picture(f)
    finally:
        if tmp and os.path.exists(tmp):
            os.unlink(tmp)


@op("ph_insert_chart", "charts", creates=True)
@gen(lambda r: dict(g_sh(r), **g_chart(r)))
def _ph_insert_chart(w, deck, a):
    from pptx.enum.chart import XL_CHART_TYPE
    sl, ph = nav_placeholder(w, deck, a, "insert_chart")
    ph.insert_chart(getattr(XL_CHART_TYPE, a["type"]), gens.build_chart_data(a["data"]))


@op("ph_insert_table", "tables")
@gen(lambda r: dict(g_sh(r), rows=r.randint(1, 4), cols=r.randint(1, 4)))
def _ph_insert_table(w, deck, a):
    sl, ph = nav_placeholder(w, deck, a, "insert_table")
    ph.insert_table(a["rows"], a["cols"])


# ---- geometry / naming ------------------------------------------------------------------------------

@op("set_geom", "geometry", weight=1.5)
@gen(lambda r: dict(g_sh(r), attr=r.choice(["left", "top", "width", "height"]), v=emu(r)))
def _set_geom(w, deck, a):
    sl, sh = nav_shape(w, deck, a, "any")
    setattr(sh, a["attr"], a["v"])


@op("set_rotation", "geometry")
@gen(lambda r: dict(g_sh(r), v=r.choice([0, 45, 90.5, 359.99, 360, -90, 720.25, r.uniform(-400, 400)])))
def _set_rotation(w, deck, a):
    sl, sh = nav_shape(w, deck, a, "nongroup")
    if type(sh).__name__ in ("GraphicFrame", "PlaceholderGraphicFrame"):
        raise Skip("graphic frame rotation unsupported")
    sh.rotation = a["v"]


@op("set_name", "geometry")
@gen(lambda r: dict(g_sh(r), name=xml_text(r, 20)))
def _set_name(w, deck, a):
    sl, sh = nav_shape(w, deck, a, "any")
    sh.name = a["name"]


@op("set_adjustment", "geometry", expects=(IndexError,))
@gen(lambda r: dict(g_sh(r), i=r.randint(0, 3), v=r.choice([0, 0.5, 1.0, -0.25, 2.5, r.random()])))
def _set_adjustment(w, deck, a):
    sl, sh = nav_shape(w, deck, a, "auto")
    if not sh.is_placeholder and sh.shape_type is not None and sh.shape_type.name != "AUTO_SHAPE":
        raise Skip("not autoshape")
    adjs = sh.adjustments
    if len(adjs) == 0:
        raise Skip("no adjustments")
    adjs[a["i"] % len(adjs)] = a["v"]


@op("set_crop", "geometry")
@gen(lambda r: dict(g_sh(r), side=r.choice(["crop_left", "crop_right", "crop_top", "crop_bottom"]),
                    v=r.choice([0, 0.25, 0.5, -0.1, 1.0, r.random()])))
def _set_crop(w, deck, a):
    sl, sh = nav_shape(w, deck, a, "pic")
    setattr(sh, a["side"], a["v"])


@op("cxn_move", "geometry")
@gen(lambda r: dict(g_sh(r), attr=r.choice(["begin_x", "begin_y", "end_x", "end_y"]), v=emu(r)))
def _cxn_move(w, deck, a):
    sl, sh = nav_shape(w, deck, a, "cxn")
    setattr(sh, a["attr"], a["v"])


# ---- text -------------------------------------------------------------------------------------------

def g_text(r, level="frame"):
    s = xml_text(r, 24)
    k = r.random()
    if k < 0.3:
        parts = [xml_text(r, 10) for _ in range(r.randint(1, 3))]
        seps = [r.choice(["\n", "\v", "\n\n", "\n\v"]) for _ in parts]
        s = "".join(p + q for p, q in zip(parts, seps))
        if r.random() < 0.5:
            s = r.choice(["\n", "\v"]) + s
    elif k < 0.36:
        s = s + r.choice(["\x07", "\x1f", "\x00", "\r", "\r\n", "_x000D_", "_x0007_", "\t"])
    return s


@op("tf_text", "text", weight=3.0)
@gen(lambda r: dict(g_sh(r), text=g_text(r)))
def _tf_text(w, deck, a):
    sl, sh = nav_shape(w, deck, a, "text")
    if a.get("via_shape"):
        sh.text = a["text"]
    else:
        sh.text_frame.text = a["text"]


@op("p_text", "text", weight=2.0)
@gen(lambda r: dict(g_sh(r), para=r.randint(0, 4), text=g_text(r)))
def _p_text(w, deck, a):
    sl, sh, tf, p = nav_paragraph(w, deck, a)
    p.text = a["text"]


@op("r_text", "text", weight=2.0)
@gen(lambda r: dict(g_sh(r), para=r.randint(0, 4), run=r.randint(0, 3), text=g_text(r)))
def _r_text(w, deck, a):
    sl, sh, tf, p, rn = nav_run(w, deck, a)
    rn.text = a["text"]


@op("add_paragraph", "text")
@gen(lambda r: dict(g_sh(r), text=r.choice([None, xml_text(r, 12)])))
def _add_paragraph(w, deck, a):
    sl, sh = nav_shape(w, deck, a, "text")
    tf = sh.text_frame
    if len(tf.paragraphs) >= 8:
        raise Skip("enough paragraphs")
    p = tf.add_paragraph()
    if a.get("text") is not None:
        p.text = a["text"]


@op("add_run", "text")
@gen(lambda r: dict(g_sh(r), para=r.randint(0, 4), text=xml_text(r, 10)))
def _add_run(w, deck, a):
    sl, sh, tf, p = nav_paragraph(w, deck, a)
    if len(p.runs) >= 6:
        raise Skip("enough runs")
    p.add_run().text = a["text"]


@op("add_line_break", "text")
@gen(lambda r: dict(g_sh(r), para=r.randint(0, 4)))
def _add_line_break(w, deck, a):
    sl, sh, tf, p = nav_paragraph(w, deck, a)
    p.add_line_break()


@op("clear_text", "text")
@gen(lambda r: dict(g_sh(r), para=r.randint(0, 4), what=r.choice(["frame", "para"])))
def _clear_text(w, deck, a):
    sl, sh, tf, p = nav_paragraph(w, deck, a)
    (tf if a["what"] == "frame" else p).clear()


def g_para_prop(r):
    prop = r.choice(["alignment", "level", "line_spacing", "space_before", "space_after"])
    if prop == "alignment":
        v = r.choice([None, "LEFT", "CENTER", "RIGHT", "JUSTIFY", "DISTRIBUTE", "THAI_DISTRIBUTE", "JUSTIFY_LOW"])
    elif prop == "level":
        v = r.choice([0, 1, 4, 8])
    elif prop == "line_spacing":
        v = r.choice([None, 1.0, 1.5, 0.9, {"pt": 12}, {"pt": 20.5}, 2])
    else:
        v = r.choice([None, {"pt": 0}, {"pt": 6}, {"pt": 12.5}, {"pt": 1584}])
    return {"prop": prop, "v": v}


def _len(v):
    from pptx.util import Pt
    if isinstance(v, dict):
        return Pt(v["pt"])
    return v


@op("para_prop", "text", weight=2.0)
@gen(lambda r: dict(g_sh(r), para=r.randint(0, 4), **g_para_prop(r)))
def _para_prop(w, deck, a):
    from pptx.enum.text import PP_ALIGN
    sl, sh, tf, p = nav_paragraph(w, deck, a)
    v = a["v"]
    if a["prop"] == "alignment":
        v = None if v is None else getattr(PP_ALIGN, v)
    else:
        v = _len(v)
    setattr(p, a["prop"], v)


def g_font_prop(r):
    prop = r.choice(["bold", "italic", "size", "name", "underline", "rgb", "theme", "brightness", "language_id"])
    if prop in ("bold", "italic"):
        v = r.choice([True, False, None])
    elif prop == "size":
        v = r.choice([None, {"pt": 1}, {"pt": 12}, {"pt": 10.5}, {"pt": 4000}, {"pt": 18}])
    elif prop == "name":
        v = r.choice([None, "Arial", "Calibri", xml_text(r, 10)])
    elif prop == "underline":
        v = r.choice([None, True, False, "DOUBLE_LINE", "WAVY_HEAVY_LINE", "DOTTED_LINE", "NONE", "SINGLE_LINE"])
    elif prop == "rgb":
        v = "%06X" % r.randint(0, 0xFFFFFF)
    elif prop == "theme":
        v = r.choice(["ACCENT_1", "ACCENT_6", "DARK_1", "LIGHT_2", "HYPERLINK", "TEXT_1", "BACKGROUND_2", "FOLLOWED_HYPERLINK"])
    elif prop == "brightness":
        v = r.choice([0, 0.25, -0.25, 1, -1, 0.4, -0.75])
    else:
        v = r.choice(["ENGLISH_US", "FRENCH", "NONE", "JAPANESE", None])
    return {"prop": prop, "v": v}


def apply_font_prop(font, prop, v):
    from pptx.dml.color import RGBColor
    from pptx.enum.dml import MSO_THEME_COLOR
    from pptx.enum.lang import MSO_LANGUAGE_ID
    from pptx.enum.text import MSO_UNDERLINE
    if prop in ("bold", "italic", "name"):
        setattr(font, prop, v)
    elif prop == "size":
        font.size = _len(v)
    elif prop == "underline":
        font.underline = getattr(MSO_UNDERLINE, v) if isinstance(v, str) else v
    elif prop == "rgb":
        font.color.rgb = RGBColor.from_string(v)
    elif prop == "theme":
        font.color.theme_color = getattr(MSO_THEME_COLOR, v)
    elif prop == "brightness":
        if font.color.type is None:
            raise Skip("no color type")
        font.color.brightness = v
    elif prop == "language_id":
        font.language_id = None if v is None else getattr(MSO_LANGUAGE_ID, v)


@op("font_prop", "text", weight=2.5)
@gen(lambda r: dict(g_sh(r), para=r.randint(0, 4), run=r.randint(0, 3), where=r.choice(["run", "run", "para"]),
                    **g_font_prop(r)))
def _font_prop(w, deck, a):
    if a["where"] == "run":
        sl, sh, tf, p, rn = nav_run(w, deck, a)
        font = rn.font
    else:
        sl, sh, tf, p = nav_paragraph(w, deck, a)
        font = p.font
    apply_font_prop(font, a["prop"], a["v"])


@op("tf_prop", "text", weight=1.5)
@gen(lambda r: dict(g_sh(r), prop=r.choice(["auto_size", "word_wrap", "margin_left", "margin_top", "margin_right",
                                           "margin_bottom", "vertical_anchor"]),
                    v=r.randint(0, 5), m=emu(r, 0, 914400)))
def _tf_prop(w, deck, a):
    from pptx.enum.text import MSO_ANCHOR, MSO_AUTO_SIZE
    sl, sh = nav_shape(w, deck, a, "text")
    tf = sh.text_frame
    prop = a["prop"]
    if prop == "auto_size":
        tf.auto_size = pick([None, MSO_AUTO_SIZE.NONE, MSO_AUTO_SIZE.SHAPE_TO_FIT_TEXT, MSO_AUTO_SIZE.TEXT_TO_FIT_SHAPE], a["v"])
    elif prop == "word_wrap":
        tf.word_wrap = pick([True, False, None], a["v"])
    elif prop == "vertical_anchor":
        tf.vertical_anchor = pick([None, MSO_ANCHOR.TOP, MSO_ANCHOR.MIDDLE, MSO_ANCHOR.BOTTOM], a["v"])
    else:
        setattr(tf, prop, a["m"])


URL_POOL = ["http://example.com/", "https://a.b/c?d=e&f=g", "http://example.com/"]


def g_addr(r):
    k = r.random()
    if k < 0.2:
        return None
    if k < 0.75:
        return r.choice(URL_POOL)  # small pool: several runs / shapes end up sharing one relationship
    return r.choice(["mailto:x@y.z", "http://example.com/" + xml_text(r, 8), "file:///C:/a b.txt", ""])


@op("run_hyperlink", "actions", creates=True, weight=2.5)
@gen(lambda r: dict(g_sh(r), para=r.randint(0, 4), run=r.randint(0, 3), addr=g_addr(r)))
def _run_hyperlink(w, deck, a):
    sl, sh, tf, p, rn = nav_run(w, deck, a)
    rn.hyperlink.address = a["addr"]


@op("fit_text", "text", expects=(TypeError,))
@gen(lambda r: dict(g_sh(r), max_size=r.choice([8, 18, 40]), bold=r.random() < 0.3, italic=r.random() < 0.3))
def _fit_text(w, deck, a):
    """fit_text with an explicit font file (no OS font directories are read)."""
    sl, sh = nav_shape(w, deck, a, "text")
    if not sh.width or not sh.height or int(sh.width) < 200000 or int(sh.height) < 200000:
        raise Skip("shape too small to fit text in")
    font = os.path.join(os.path.dirname(os.path.dirname(os.path.abspath(__file__))), "assets", "calibriz.ttf")
    sh.text_frame.fit_text("Calibri", a["max_size"], a["bold"], a["italic"], font_file=font)


@op("font_fill", "dml", weight=1.5, expects=(ValueError,))
@gen(lambda r: dict(g_sh(r), para=r.randint(0, 4), run=r.randint(0, 3), **g_fill(r)))
def _font_fill(w, deck, a):
    sl, sh, tf, p, rn = nav_run(w, deck, a)
    apply_fill(rn.font.fill, a)


@op("pic_auto_shape", "geometry")
@gen(lambda r: dict(g_sh(r), type=r.randint(0, 200)))
def _pic_auto_shape(w, deck, a):
    sl, sh = nav_shape(w, deck, a, "pic")
    if type(sh).__name__ != "Picture":
        raise Skip("not a plain picture")
    sh.auto_shape_type = autoshape_member(a["type"])


# ---- DML ------------------------------------------------------------------------------------------------

# angles within half a 1/60000-degree quantum of a full turn (from either side) are in the pool: they round up to 360 degrees
def g_fill(r):
    return {"mode": r.choice(["solid", "solid", "gradient", "patterned", "background", "none_read"]),
            "rgb": "%06X" % r.randint(0, 0xFFFFFF), "theme": r.choice([None, "ACCENT_1", "ACCENT_3", "TEXT_2"]),
            "pattern": r.choice(["CROSS", "DIVOT", "PERCENT_50", "WAVE", "ZIG_ZAG"]),
            "angle": r.choice([None, 0, 45, 90.5, 359, 360, 720, -90, 359.9999, 1e-6, 0.000005, 360.000004, -359.999997, 359.999997]), "bright": r.choice([None, 0.3, -0.5]),
            "stop": r.choice([None, 0, 1])}


def apply_fill(fill, a):
    from pptx.dml.color import RGBColor
    from pptx.enum.dml import MSO_PATTERN, MSO_THEME_COLOR
    m = a["mode"]
    if m == "solid":
        fill.solid()
        if a["theme"]:
            fill.fore_color.theme_color = getattr(MSO_THEME_COLOR, a["theme"])
        else:
            fill.fore_color.rgb = RGBColor.from_string(a["rgb"])
        if a["bright"] is not None:
            fill.fore_color.brightness = a["bright"]
    elif m == "gradient":
        fill.gradient()
        if a["angle"] is not None:
            fill.gradient_angle = a["angle"]
        if a["stop"] is not None:
            st = fill.gradient_stops[a["stop"]]
            st.color.rgb = RGBColor.from_string(a["rgb"])
            st.position = 0.25 if a["stop"] == 0 else 0.8
    elif m == "patterned":
        fill.patterned()
        fill.pattern = getattr(MSO_PATTERN, a["pattern"])
        fill.fore_color.rgb = RGBColor.from_string(a["rgb"])
        fill.back_color.rgb = RGBColor.from_string(a["rgb"][::-1])
    elif m == "background":
        fill.background()
    else:
        _ = fill.type


@op("shape_fill", "dml", weight=2.0)
@gen(lambda r: dict(g_sh(r), **g_fill(r)))
def _shape_fill(w, deck, a):
    sl, sh = nav_shape(w, deck, a, "filled")
    apply_fill(sh.fill, a)


@op("shape_line", "dml", weight=2.0, expects=(ValueError,))
@gen(lambda r: dict(g_sh(r), what=r.choice(["width", "dash", "color", "fill"]), wv=r.choice([0, 12700, 25400, 9525, 20116800]),
                    dash=r.choice([None, "DASH", "ROUND_DOT", "SOLID", "LONG_DASH_DOT", "SQUARE_DOT"]), **g_fill(r)))
def _shape_line(w, deck, a):
    from pptx.dml.color import RGBColor
    from pptx.enum.dml import MSO_LINE
    sl, sh = nav_shape(w, deck, a, "lined")
    ln = sh.line
    if a["what"] == "width":
        ln.width = a["wv"]
    elif a["what"] == "dash":
        ln.dash_style = None if a["dash"] is None else getattr(MSO_LINE, a["dash"])
    elif a["what"] == "color":
        ln.color.rgb = RGBColor.from_string(a["rgb"])
    else:
        apply_fill(ln.fill, a)


@op("shape_shadow", "dml")
@gen(lambda r: dict(g_sh(r), v=r.choice([True, False])))
def _shape_shadow(w, deck, a):
    sl, sh = nav_shape(w, deck, a, "filled")
    sh.shadow.inherit = a["v"]


# ---- actions ----------------------------------------------------------------------------------------------

@op("click_hyperlink", "actions", creates=True, weight=2.0)
@gen(lambda r: dict(g_sh(r), addr=g_addr(r)))
def _click_hyperlink(w, deck, a):
    sl, sh = nav_shape(w, deck, a, "nongroup")
    sh.click_action.hyperlink.address = a["addr"]


@op("click_target", "actions", creates=True, weight=1.5)
@gen(lambda r: dict(g_sh(r), target=r.choice([None, 0, 1, 2, 3])))
def _click_target(w, deck, a):
    sl, sh = nav_shape(w, deck, a, "nongroup")
    if a["target"] is None:
        sh.click_action.target_slide = None
    else:
        sh.click_action.target_slide = pick(slides_of(deck), a["target"])


# ---- tables -------------------------------------------------------------------------------------------------

def nav_table(w, deck, a):
    sl, sh = nav_shape(w, deck, a, "table")
    return sl, sh, sh.table


def g_tb(r):
    return dict(g_sh(r), r=r.randint(0, 5), c=r.randint(0, 5))


def cell_at(tbl, r_, c_):
    nr, nc = len(tbl.rows), len(tbl.columns)
    if nr == 0 or nc == 0:
        raise Skip("empty table")
    return tbl.cell(r_ % nr, c_ % nc)


@op("cell_text", "tables", weight=2.0)
@gen(lambda r: dict(g_tb(r), text=g_text(r)))
def _cell_text(w, deck, a):
    sl, sh, tbl = nav_table(w, deck, a)
    cell_at(tbl, a["r"], a["c"]).text = a["text"]


@op("cell_merge", "tables", expects=(ValueError,), weight=2.0)
@gen(lambda r: dict(g_tb(r), r2=r.randint(0, 5), c2=r.randint(0, 5)))
def _cell_merge(w, deck, a):
    sl, sh, tbl = nav_table(w, deck, a)
    cell_at(tbl, a["r"], a["c"]).merge(cell_at(tbl, a["r2"], a["c2"]))


@op("cell_split", "tables", expects=(ValueError,), weight=1.5)
@gen(g_tb)
def _cell_split(w, deck, a):
    sl, sh, tbl = nav_table(w, deck, a)
    cell_at(tbl, a["r"], a["c"]).split()


@op("cell_prop", "tables", weight=1.5)
@gen(lambda r: dict(g_tb(r), prop=r.choice(["margin_left", "margin_right", "margin_top", "margin_bottom",
                                             "vertical_anchor", "fill"]),
                    m=r.choice([None, 0, 45720, 91440, 500000]), v=r.randint(0, 4), **g_fill(r)))
def _cell_prop(w, deck, a):
    from pptx.enum.text import MSO_ANCHOR
    sl, sh, tbl = nav_table(w, deck, a)
    cell = cell_at(tbl, a["r"], a["c"])
    if a["prop"] == "fill":
        apply_fill(cell.fill, a)
    elif a["prop"] == "vertical_anchor":
        cell.vertical_anchor = pick([None, MSO_ANCHOR.TOP, MSO_ANCHOR.MIDDLE, MSO_ANCHOR.BOTTOM], a["v"])
    else:
        setattr(cell, a["prop"], a["m"])


@op("table_dim", "tables")
@gen(lambda r: dict(g_tb(r), what=r.choice(["row", "col"]), v=emu(r, 0, 3000000)))
def _table_dim(w, deck, a):
    sl, sh, tbl = nav_table(w, deck, a)
    if a["what"] == "row":
        pick(list(tbl.rows), a["r"]).height = a["v"]
    else:
        pick(list(tbl.columns), a["c"]).width = a["v"]


@op("table_flag", "tables")
@gen(lambda r: dict(g_tb(r), flag=r.choice(["first_row", "first_col", "last_row", "last_col", "horz_banding", "vert_banding"]),
                    v=r.choice([True, False])))
def _table_flag(w, deck, a):
    sl, sh, tbl = nav_table(w, deck, a)
    setattr(tbl, a["flag"], a["v"])


# ---- chart formatting -----------------------------------------------------------------------------------------

def g_chartfmt(r):
    return dict(g_sh(r), what=r.choice(["has_title", "title_text", "has_legend", "legend_pos", "legend_inlay",
                                        "style", "cat_axis", "val_axis", "plot", "series_fill", "series_line",
                                        "data_labels", "font", "marker", "point", "smooth", "invert"]),
                b=r.choice([True, False]), i=r.randint(0, 5), j=r.randint(0, 5), text=xml_text(r, 16),
                f=r.choice([0, 1, 10, 150, 500, -100, 48]), **g_fill(r))


@op("chart_fmt", "charts", weight=3.0, expects=())
@gen(g_chartfmt)
def _chart_fmt(w, deck, a):
    from pptx.dml.color import RGBColor
    from pptx.enum.chart import (XL_DATA_LABEL_POSITION, XL_LEGEND_POSITION, XL_MARKER_STYLE,
                                 XL_TICK_LABEL_POSITION, XL_TICK_MARK)
    from pptx.util import Pt
    sl, sh = nav_shape(w, deck, a, "chart")
    ch = sh.chart
    what = a["what"]
    if what == "has_title":
        ch.has_title = a["b"]
    elif what == "title_text":
        ch.chart_title.text_frame.text = a["text"]
    elif what == "has_legend":
        ch.has_legend = a["b"]
    elif what in ("legend_pos", "legend_inlay"):
        if not ch.has_legend:
            raise Skip("no legend")
        if what == "legend_pos":
            ch.legend.position = pick(list(XL_LEGEND_POSITION), a["i"])
            ch.legend.horz_offset = pick([0, 0.5, -0.5, 1, -1], a["j"])
        else:
            ch.legend.include_in_layout = a["b"]
            ch.legend.font.size = Pt(10 + a["i"])
    elif what == "style":
        ch.chart_style = pick([1, 2, 10, 26, 48, None], a["i"])
    elif what in ("cat_axis", "val_axis"):
        try:
            ax = ch.category_axis if what == "cat_axis" else ch.value_axis
        except ValueError:
            raise Skip("no such axis")
        k = a["i"] % 10
        if k == 0:
            ax.has_major_gridlines = a["b"]
        elif k == 1:
            ax.has_minor_gridlines = a["b"]
        elif k == 2:
            ax.has_title = a["b"]
            if a["b"]:
                ax.axis_title.text_frame.text = a["text"]
        elif k == 3:
            ax.visible = a["b"]
        elif k == 4:
            ax.major_tick_mark = pick(list(XL_TICK_MARK), a["j"])
            ax.minor_tick_mark = pick(list(XL_TICK_MARK), a["j"] + 1)
        elif k == 5:
            ax.tick_label_position = pick(list(XL_TICK_LABEL_POSITION), a["j"])
        elif k == 6:
            if type(ax).__name__ != "ValueAxis":
                raise Skip("not value axis")
            ax.maximum_scale = pick([None, 100, 50.5, -1], a["j"])
            ax.minimum_scale = pick([None, 0, -10.25, 7], a["j"])
        elif k == 7:
            if type(ax).__name__ != "ValueAxis":
                raise Skip("not value axis")
            ax.major_unit = pick([None, 10, 0.5], a["j"])
            ax.minor_unit = pick([None, 1, 0.1], a["j"])
        elif k == 8:
            ax.tick_labels.number_format = pick(["General", "0.0", '0"<"'], a["j"])
            ax.tick_labels.number_format_is_linked = a["b"]
            ax.tick_labels.offset = pick([100, 0, 1000, 50], a["j"]) if what == "cat_axis" and type(ax).__name__ == "CategoryAxis" else ax.tick_labels.offset
        else:
            ax.format.line.width = Pt(1 + a["j"])
            ax.tick_labels.font.bold = a["b"]
            ax.reverse_order = a["b"]
    elif what == "plot":
        plot = pick(list(ch.plots), a["i"])
        plot.vary_by_categories = a["b"]
        plot.has_data_labels = a["b"]
        cls = type(plot).__name__
        if cls == "BarPlot":
            plot.gap_width = pick([0, 150, 500, 50], a["j"])
            plot.overlap = pick([0, 100, -100, 25], a["j"])
        elif cls == "BubblePlot":
            plot.bubble_scale = pick([None, 100, 300, 0, 50], a["j"])
    elif what in ("series_fill", "series_line", "marker", "point", "smooth", "invert"):
        plot = pick(list(ch.plots), a["i"])
        ser = pick(list(plot.series), a["j"])
        if what == "series_fill":
            apply_fill(ser.format.fill, a)
        elif what == "series_line":
            ser.format.line.width = Pt(a["i"])
            ser.format.line.color.rgb = RGBColor.from_string(a["rgb"])
        elif what == "marker":
            if not hasattr(ser, "marker"):
                raise Skip("no marker")
            ser.marker.style = pick(list(XL_MARKER_STYLE), a["i"])
            ser.marker.size = pick([2, 5, 72, None], a["j"])
            apply_fill(ser.marker.format.fill, a)
        elif what == "point":
            if not hasattr(ser, "points"):
                raise Skip("no points")
            pts = ser.points
            if len(pts) == 0:
                raise Skip("no points")
            pt = pts[a["i"] % len(pts)]
            apply_fill(pt.format.fill, a)
            pt.data_label.text_frame.text = a["text"]
            pt.data_label.position = pick([None] + list(XL_DATA_LABEL_POSITION), a["j"])
        elif what == "smooth":
            if not hasattr(ser, "smooth"):
                raise Skip("no smooth")
            ser.smooth = a["b"]
        else:
            if not hasattr(ser, "invert_if_negative"):
                raise Skip("no invert")
            ser.invert_if_negative = a["b"]
    elif what == "data_labels":
        plot = pick(list(ch.plots), a["i"])
        plot.has_data_labels = True
        dl = plot.data_labels
        k = a["j"] % 6
        if k == 0:
            dl.number_format = pick(["General", "0.0%", '#,##0"&"'], a["i"])
            dl.number_format_is_linked = a["b"]
        elif k == 1:
            dl.position = pick([None] + list(XL_DATA_LABEL_POSITION), a["i"])
        elif k == 2:
            dl.show_value = a["b"]
            dl.show_percentage = not a["b"]
        elif k == 3:
            dl.show_category_name = a["b"]
            dl.show_series_name = a["b"]
        elif k == 4:
            dl.show_legend_key = a["b"]
        else:
            dl.font.size = Pt(8 + a["i"])
            dl.font.color.rgb = RGBColor.from_string(a["rgb"])
    elif what == "font":
        ch.font.size = Pt(8 + a["i"])
        ch.font.bold = a["b"]


# ---- rejected calls (API-level faults): documented exception expected, nothing may change ------------------------

def g_bad(r):
    return dict(g_sh(r), what=r.choice(["rgb_type", "geom_type", "level_range", "font_size_type", "core_long",
                                        "shape_index", "line_spacing_type", "merge_other_table", "split_nonorigin",
                                        "layout_in_use", "core_revision", "theme_color_type", "slide_index",
                                        "placeholder_idx", "adjust_index", "brightness_range", "gradient_not_grad",
                                        "pattern_not_patt", "para_align_type"]),
                i=r.randint(0, 9))


@op("bad_call", "rejected", weight=2.0,
    expects=(TypeError, ValueError, IndexError, KeyError, AttributeError))
@gen(g_bad)
def _bad_call(w, deck, a):
    """Each branch passes an out-of-domain value; the documented outcome is an exception."""
    what = a["what"]
    prs = deck.prs
    if what == "core_long":
        prs.core_properties.title = "x" * 256
    elif what == "core_revision":
        prs.core_properties.revision = pick([0, -1, "3", 1.5], a["i"])
    elif what == "slide_index":
        deck.slides_accessed = True
        _ = prs.slides[len(prs.slides) + a["i"]]
    elif what == "layout_in_use":
        sls = slides_of(deck)
        if not sls:
            raise Skip("no slides")
        layout = pick(sls, a["i"]).slide_layout
        master = layout.slide_master
        master.slide_layouts.remove(layout)
    else:
        sl = nav_slide(w, deck, a)
        if what == "shape_index":
            _ = sl.shapes[len(sl.shapes) + a["i"]]
        elif what == "placeholder_idx":
            _ = sl.placeholders[9999 + a["i"]]
        elif what in ("merge_other_table", "split_nonorigin"):
            tables = [s for s in walk_shapes(sl.shapes) if getattr(s, "has_table", False)]
            if what == "merge_other_table":
                if len(tables) < 2:
                    raise Skip("need two tables")
                tables[0].table.cell(0, 0).merge(tables[1].table.cell(0, 0))
            else:
                t = pick(tables, a["i"]).table
                for r_ in range(len(t.rows)):
                    for c_ in range(len(t.columns)):
                        c = t.cell(r_, c_)
                        if not c.is_merge_origin:
                            c.split()
                            return
                raise Skip("all origins")
        else:
            _sl, sh = nav_shape(w, deck, a, "auto")
            if what == "rgb_type":
                sh.fill.solid()
                sh.fill.fore_color.rgb = pick(["FF0000", (1, 2, 3), 0xFF0000, None], a["i"])
            elif what == "geom_type":
                sh.left = pick(["12", 1.5e30, [1]], a["i"])
            elif what == "level_range":
                sh.text_frame.paragraphs[0].level = pick([9, -1, 100], a["i"])
            elif what == "font_size_type":
                sh.text_frame.paragraphs[0].font.size = pick(["12pt", -1, 400100], a["i"])
            elif what == "line_spacing_type":
                sh.text_frame.paragraphs[0].line_spacing = pick(["x", [1]], a["i"])
            elif what == "theme_color_type":
                sh.fill.solid()
                sh.fill.fore_color.theme_color = pick(["ACCENT_1", 9999, 1.5], a["i"])
            elif what == "adjust_index":
                adjs = sh.adjustments
                adjs[len(adjs) + a["i"]] = 0.5
            elif what == "brightness_range":
                sh.fill.solid()
                sh.fill.fore_color.rgb = __import__("pptx.dml.color", fromlist=["RGBColor"]).RGBColor(1, 2, 3)
                sh.fill.fore_color.brightness = pick([1.5, -1.01, 100], a["i"])
            elif what == "gradient_not_grad":
                sh.fill.solid()
                _ = sh.fill.gradient_stops
            elif what == "pattern_not_patt":
                sh.fill.solid()
                sh.fill.pattern = 1
            elif what == "para_align_type":
                sh.text_frame.paragraphs[0].alignment = pick(["CENTER", 99], a["i"])
    return "accepted"


# ---- scheduler events ----------------------------------------------------------------------------------------------------

def ev_checkpoint(w, ev):
    deck = w.deck(ev.get("deck", 0))
    if deck is None or not deck.alive:
        return "skip:dead"
    fault = ev.get("fault")
    try:
        acked, img, exc = w.save_deck(deck, ev.get("sink", "seekable"), fault)
    except SimCrash:
        # process died mid-save: only durable state survives
        deck.alive = False
        deck.prs = None
        deck.drop_handles()
        w.probes.hit("crash_during_save")
        w.open_deck(deck, "stream")
        for o in w.oracles:
            o.on_restart(w, deck, ev)
        return "crash-restart"
    if exc == "swallowed":
        w.report("save|fault-swallowed|save() returned normally although a write error was injected",
                 "fault=%r" % (fault,), "saving produces a zip ... (a failed write must be reported)")
        return "ok"
    if not acked:
        w.probes.hit("save_failed_" + type(exc).__name__)
        for o in w.oracles:
            o.on_failed_save(w, deck, ev, exc)
        if not isinstance(exc, OSError):
            # a save that fails without an injected fault
            if not fault and ev.get("sink") not in ("devfull",):
                w.report("save|raised|%s" % type(exc).__name__, traceback.format_exc()[-1500:],
                         "saving produces a zip")
            return "undoc:%s" % type(exc).__name__
        if not fault and ev.get("sink") != "devfull":
            w.report("save|raised|OSError-without-fault", repr(exc), "saving produces a zip")
        return "save-failed:%s" % type(exc).__name__
    if img is None:
        return "ok-noimage"
    deck.saves += 1
    deck.image = img
    w.probes.hit("checkpoint_" + ev.get("sink", "seekable"))
    for o in w.oracles:
        o.on_checkpoint(w, deck, img, ev)
    import copy
    deck.memo_saved = copy.deepcopy(deck.memo)
    w.state_digests.add(_abstract_state(img, deck, len(w.decks)))
    return "ok"


def _abstract_state(img: bytes, deck, ndecks: int) -> str:
    """Abstract state of a durable image for the 'distinct states reached' measure: number of members by (directory,
    extension), whether the slide collection had been accessed, number of decks alive, number of saves so far (capped)."""
    import io
    import zipfile
    from .engine import jdump
    c = {}
    try:
        for n in zipfile.ZipFile(io.BytesIO(img)).namelist():
            d, _, f = n.rpartition("/")
            k = "%s/*.%s" % (d, f.rpartition(".")[2] if "." in f else "")
            c[k] = c.get(k, 0) + 1
    except Exception:  # noqa: BLE001
        c = {"unreadable": 1}
    return jdump([sorted(c.items()), bool(deck.slides_accessed), ndecks, min(deck.saves, 3)])


def ev_restart(w, ev):
    deck = w.deck(ev.get("deck", 0))
    if deck is None:
        return "skip:nodeck"
    deck.prs = None
    if ev.get("xform") and deck.image is not None:
        # between two sessions another program rewrote the stored file (a legal, equivalent rewrite of its XML)
        from . import pkgxform
        for x in ev["xform"]:
            deck.image = pkgxform.apply(deck.image, x)
        w.probes.hit("image_rewritten_by_another_program")
    w.open_deck(deck, ev.get("form", "stream"), ev.get("pos", 0))
    w.probes.hit("restart")
    for o in w.oracles:
        o.on_restart(w, deck, ev)
    return "ok"


def ev_reopen(w, ev):
    out = ev_checkpoint(w, ev)
    if out != "ok":
        return "ckpt-" + out
    return ev_restart(w, ev)


def ev_fork(w, ev):
    from .engine import Deck
    if len(w.decks) >= 2:
        return "skip:two decks"
    out = ev_checkpoint(w, ev)
    if out != "ok":
        return "ckpt-" + out
    src = w.deck(ev.get("deck", 0))
    d = Deck(len(w.decks))
    d.image = d.start_image = src.image
    import copy
    d.memo_saved = copy.deepcopy(src.memo_saved)
    w.decks.append(d)
    w.open_deck(d, "stream")
    w.probes.hit("fork")
    return "ok"


def ev_observe(w, ev):
    from . import snapshot
    deck = w.deck(ev.get("deck", 0))
    if deck is None or not deck.alive:
        return "skip:dead"
    deck.slides_accessed = True
    s = snapshot.snapshot(deck.prs, deep=ev.get("deep", True))
    from .engine import jdump
    import hashlib
    w.note(kind="obs", h=hashlib.sha1(jdump(s).encode()).hexdigest()[:12])
    return "ok"


def ev_clobber_source(w, ev):
    """The file the deck was opened from is overwritten / truncated / deleted behind the library's back: nothing may be
    read lazily, so the live presentation and later saves are unaffected."""
    deck = w.deck(ev.get("deck", 0))
    if deck is None or not deck.alive or not getattr(deck, "src_path", None):
        return "skip:no kept source"
    how = ev.get("how", "garbage")
    if how == "delete":
        if os.path.exists(deck.src_path):
            os.unlink(deck.src_path)
        deck.src_path = None
    elif how == "truncate":
        with open(deck.src_path, "r+b") as f:
            f.truncate(100)
    else:
        with open(deck.src_path, "wb") as f:
            f.write(b"not a package any more")
        from .disk import _stamp
        _stamp(deck.src_path)
    w.faults.hit("source_file_clobbered_" + how)
    return "ok"


def ev_clock_jump(w, ev):
    w.clock.jump(ev.get("by", 0))
    return "ok"


SCHED = {"checkpoint": ev_checkpoint, "restart": ev_restart, "reopen": ev_reopen, "fork": ev_fork,
         "observe": ev_observe, "clock_jump": ev_clock_jump, "clobber_source": ev_clobber_source}


def _innermost_in_harness(tb) -> bool:
    global SRC_PREFIX
    if SRC_PREFIX is None:
        import pptx
        SRC_PREFIX = os.path.dirname(os.path.abspath(pptx.__file__))
    frames = traceback.extract_tb(tb)
    if not frames:
        return True
    # harness bug iff no frame of the code under test (or its dependencies) is on the stack below
    # the op body: the exception was raised by harness code itself
    here = os.path.dirname(os.path.abspath(__file__))
    last = frames[-1].filename
    return os.path.abspath(last).startswith(here)


def run_event(w, ev) -> str:
    name = ev["op"]
    if name in SCHED:
        return SCHED[name](w, ev)
    o = OPS.get(name)
    if o is None:
        raise HarnessError("unknown op %r" % name)
    deck = w.deck(ev.get("deck", 0))
    if deck is None or not deck.alive:
        return "skip:dead"
    planned_fault = any(isinstance(ev.get(k), dict) and ev[k].get("fault") for k in ("src", "psrc", "isrc"))
    try:
        out = o.run(w, deck, ev)
        return out or "ok"
    except Skip as s:
        return "skip:%s" % s
    except (Violation, SimCrash, HarnessError):
        raise
    except Exception as e:  # noqa: BLE001
        import sys
        tb = sys.exc_info()[2]
        if _innermost_in_harness(tb) and not isinstance(e, OSError):
            raise HarnessError("op %s raised in harness code: %s" % (name, traceback.format_exc()[-1500:]))
        if planned_fault and isinstance(e, (OSError, ValueError, EOFError, SyntaxError)) or \
                (planned_fault and type(e).__name__ in ("UnidentifiedImageError", "DecompressionBombError")):
            w.stats.hit("iofault_surfaced")
            return "iofault:%s" % type(e).__name__
        if isinstance(e, o.expects):
            return "rejected:%s" % type(e).__name__
        w.stats.hit("undoc:%s:%s" % (name, type(e).__name__))
        if len(w.log) < 100000:
            w.note(kind="undoc", op=name, exc=type(e).__name__, msg=str(e)[:200])
        return "undoc:%s" % type(e).__name__


# ---- generation helpers -------------------------------------------------------------------------------------------------------

def gen_op_event(r: random.Random, name: str, deck: int = 0) -> dict:
    ev = OPS[name].gen(r)
    ev["op"] = name
    if deck:
        ev["deck"] = deck
    return ev


def gen_sink(r: random.Random, fault_rate=0.0, nwrites=300):
    sink = r.choice(["seekable", "seekable", "unseekable", "path", "samepath", "reused"])
    d = {"sink": sink}
    if sink not in ("path", "samepath") and r.random() < fault_rate:
        k = r.random()
        at = r.choice([1, 2, 3, r.randint(1, nwrites), r.randint(1, 60)])
        if k < 0.35:
            d["fault"] = {"kind": "enospc", "at": at, "sticky": r.random() < 0.5}
        elif k < 0.55:
            d["fault"] = {"kind": "eio", "at": at, "sticky": False}
        else:
            d["fault"] = {"kind": "crash", "at": at, "torn": r.choice([0, 1, 17, 10 ** 6])}
        if r.random() < 0.5:
            # half of the faults are placed as a fraction of the previous complete save of the same deck (resolved at run time)
            d["fault"]["at_frac"] = r.choice([0.02, 0.3, 0.6, 0.9, 0.97, 0.995, 1.0])
    elif r.random() < fault_rate / 4:
        d = {"sink": "devfull"}
    return d
