"""Seeded id mutator on stored decks (no pptx import): rewrites shape ids / names in slide parts and
slide ids in presentation.xml so that start decks carry arbitrary pre-existing id populations."""
from __future__ import annotations

import random
import re

from lxml import etree

from . import pkgxform, refpkg

P = "{http://schemas.openxmlformats.org/presentationml/2006/main}"
_SLIDE = re.compile(r"^ppt/slides/slide\d+\.xml$")


def apply(data: bytes, x: dict) -> bytes:
    r = random.Random(x.get("seed", 0))
    mode = x.get("mode", "gaps")
    out = []
    for n, b in pkgxform.read_members(data):
        if _SLIDE.match(n) and mode in ("gaps", "high", "dups", "nonnumeric", "names", "mixed", "foreign", "padded"):
            b = _mutate_slide(b, r, mode)
        elif n == "ppt/presentation.xml" and mode in ("slideids-max", "slideids-gaps", "mixed"):
            b = _mutate_pres(b, r, mode)
        out.append((n, b))
    return pkgxform.write_members(out)


def _mutate_slide(blob: bytes, r: random.Random, mode: str) -> bytes:
    root = refpkg.parse(blob)
    cnv = [el for el in root.iter(P + "cNvPr")]
    shapes = cnv[1:]  # first is the spTree's own (id 1)
    m = mode if mode != "mixed" else r.choice(["gaps", "high", "dups", "nonnumeric", "names", "foreign", "padded"])
    if m == "gaps":
        nxt = 2
        for el in shapes:
            nxt += r.choice([1, 1, 2, 5, 17])
            el.set("id", str(nxt))
    elif m == "high":
        for i, el in enumerate(shapes):
            el.set("id", str(r.choice([2147483646, 2147483640 + (i % 5), 2147483000 + i, 1000000 + i])))
        if shapes:
            shapes[-1].set("id", str(r.choice([2147483647, 2147483646, 2147483648])))
    elif m == "dups":
        for el in shapes:
            el.set("id", str(r.choice([2, 3, 3, 4])))
    elif m == "nonnumeric":
        csld = root.find(P + "cSld")
        if csld is not None:
            ext_lst = etree.SubElement(csld, P + "extLst")
            ext = etree.SubElement(ext_lst, P + "ext")
            ext.set("uri", "{BB962C8B-B14F-4D97-AF65-F5344CB8AC3E}")
            t = etree.SubElement(ext, "{urn:verif:x}thing")
            t.set("id", r.choice(["abc-123", "{GUID-1}", "rId7", "12x", "-5", "\u0661\u0662", "\u00b2"]))
            t2 = etree.SubElement(ext, "{urn:verif:x}thing")
            t2.set("id", str(r.choice([50, 99, 7])))
    elif m == "padded":
        # the same numbers in other lexical forms of xsd:unsignedInt: leading zeros, an explicit plus sign is NOT allowed so only zeros
        for el in shapes:
            v = el.get("id") or ""
            if v.isdigit():
                el.set("id", "0" * r.choice([1, 2, 3]) + v)
    elif m == "foreign":
        # ids carried by elements that are not shapes: an animation timing tree (p:cTn/@id) as PowerPoint writes it, numbered
        # just above (or interleaved with) the shape ids
        if root.tag == P + "sld" and root.find(P + "timing") is None:
            top = max([int(e.get("id")) for e in cnv if (e.get("id") or "").isdigit()] or [1])
            k = top + r.choice([0, 1, 1, 2, 5])
            timing = etree.Element(P + "timing")
            par = etree.SubElement(etree.SubElement(timing, P + "tnLst"), P + "par")
            ctn = etree.SubElement(par, P + "cTn")
            ctn.set("id", str(k + 1)); ctn.set("dur", "indefinite"); ctn.set("restart", "never"); ctn.set("nodeType", "tmRoot")
            if r.random() < 0.6:
                ch = etree.SubElement(ctn, P + "childTnLst")
                for j in range(r.choice([1, 2, 3])):
                    c2 = etree.SubElement(etree.SubElement(ch, P + "par"), P + "cTn")
                    c2.set("id", str(k + 2 + j)); c2.set("fill", "hold")
            after = [e for e in root if isinstance(e.tag, str) and e.tag in (P + "cSld", P + "clrMapOvr", P + "transition")]
            after[-1].addnext(timing)
    elif m == "names":
        for el in shapes:
            el.set("name", r.choice(["Dup", "Dup", "TextBox 1", "Title 1", ""]))
    return etree.tostring(root, xml_declaration=True, encoding="UTF-8", standalone=True)


def _mutate_pres(blob: bytes, r: random.Random, mode: str) -> bytes:
    root = refpkg.parse(blob)
    lst = root.find(P + "sldIdLst")
    if lst is None:
        return blob
    ids = list(lst)
    if not ids:
        return blob
    m = mode if mode != "mixed" else r.choice(["slideids-max", "slideids-gaps"])
    if m == "slideids-max":
        ids[-1].set("id", "2147483647")
        if len(ids) > 1 and r.random() < 0.5:
            ids[0].set("id", "256")
    else:
        cur = 256
        for el in ids:
            cur += r.choice([0, 1, 3, 1000, 70000]) + (1 if el is not ids[0] else 0)
            el.set("id", str(cur))
    return etree.tostring(root, xml_declaration=True, encoding="UTF-8", standalone=True)
