"""Known-findings file (/verif/known_findings.json): read-only at run time."""
from __future__ import annotations

import json
import os

VERIF = os.path.dirname(os.path.dirname(os.path.abspath(__file__)))
PATH = os.path.join(VERIF, "known_findings.json")


def load():
    if not os.path.exists(PATH):
        return []
    with open(PATH) as f:
        return json.load(f).get("findings", [])


def known_for(prop: str):
    """Entries with status 'known' that apply to `prop` (a 'fixed' entry suppresses nothing)."""
    return [e for e in load() if e.get("status") == "known" and prop in e.get("properties", [e.get("property")])]


def match_known(entries, prop, sig: str):
    for e in entries:
        pat = e["signature"]
        if sig == pat or _wild(sig, pat):
            return pat
    return None


def _wild(s: str, pat: str) -> bool:
    """Only '*' is special (signatures contain [ ] ? literally)."""
    if "*" not in pat:
        return s == pat
    parts = pat.split("*")
    if not s.startswith(parts[0]):
        return False
    pos = len(parts[0])
    for mid in parts[1:-1]:
        j = s.find(mid, pos)
        if j < 0:
            return False
        pos = j + len(mid)
    return s.endswith(parts[-1]) and len(s) - len(parts[-1]) >= pos
