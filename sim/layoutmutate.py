"""Seeded mutator of slide layouts in a stored deck (no pptx import): arbitrary placeholder populations."""
from __future__ import annotations

import copy
import random
import re

from lxml import etree

from . import pkgxform, refpkg

P = "{http://schemas.openxmlformats.org/presentationml/2006/main}"
A = "{http://schemas.openxmlformats.org/drawingml/2006/main}"
_LAYOUT = re.compile(r"^ppt/slideLayouts/slideLayout\d+\.xml$")
_NOTES_MASTER = re.compile(r"^ppt/notesMasters/notesMaster\d+\.xml$")
LAYOUT_TYPES = ["title", "body", "ctrTitle", "subTitle", "dt", "sldNum", "ftr", "obj", "chart", "tbl", "clipArt", "dgm",
                "media", "pic", None]


def apply(data: bytes, x: dict) -> bytes:
    r = random.Random(x.get("seed", 0))
    out = []
    for n, b in pkgxform.read_members(data):
        if _LAYOUT.match(n) and r.random() < x.get("rate", 0.7):
            b = _mutate(b, r)
        elif _NOTES_MASTER.match(n) and x.get("notes", True):
            b = _mutate_notes_master(b, r)
        out.append((n, b))
    return pkgxform.write_members(out)


def _mutate(blob: bytes, r: random.Random) -> bytes:
    root = refpkg.parse(blob)
    tree = root.find(P + "cSld/" + P + "spTree")
    if tree is None:
        return blob
    phs = [sp for sp in tree if isinstance(sp.tag, str) and sp.tag == P + "sp" and sp.find(P + "nvSpPr/" + P + "nvPr/" + P + "ph") is not None]
    used_idx = set()
    for sp in phs:
        ph = sp.find(P + "nvSpPr/" + P + "nvPr/" + P + "ph")
        used_idx.add(int(ph.get("idx", "0")))
    max_id = max([int(e.get("id")) for e in root.iter(P + "cNvPr") if (e.get("id") or "").isdigit()] or [1])
    # clone some placeholders with new idx / types
    for _ in range(r.choice([0, 0, 1, 2, 3])):
        if not phs:
            break
        src = r.choice(phs)
        new = copy.deepcopy(src)
        max_id += 1
        c = new.find(P + "nvSpPr/" + P + "cNvPr")
        c.set("id", str(max_id))
        c.set("name", r.choice(["Clone", c.get("name", "x"), "Dup Name"]))
        ph = new.find(P + "nvSpPr/" + P + "nvPr/" + P + "ph")
        idx = r.choice([10, 11, 12, 13, 20, 4294967295, 100])
        while idx in used_idx:
            idx = idx + 1 if idx < 4294967295 else 1000
        used_idx.add(idx)
        ph.set("idx", str(idx))
        t = r.choice(LAYOUT_TYPES)
        if t is None:
            ph.attrib.pop("type", None)
        else:
            ph.set("type", t)
        tree.append(new)
        phs.append(new)
    for sp in phs:
        ph = sp.find(P + "nvSpPr/" + P + "nvPr/" + P + "ph")
        k = r.random()
        if k < 0.25:
            # drop the layout's own geometry: the master supplies it
            sppr = sp.find(P + "spPr")
            if sppr is not None:
                xf = sppr.find(A + "xfrm")
                if xf is not None:
                    sppr.remove(xf)
        elif k < 0.33:
            # zero-valued geometry is a value, not "unset"
            sppr = sp.find(P + "spPr")
            xf = sppr.find(A + "xfrm") if sppr is not None else None
            if xf is not None and xf.find(A + "off") is not None and xf.find(A + "ext") is not None:
                which = r.choice(["x", "y", "xy", "cx", "cy"])
                if "x" == which or which == "xy":
                    xf.find(A + "off").set("x", "0")
                if "y" == which or which == "xy":
                    xf.find(A + "off").set("y", "0")
                if which == "cx":
                    xf.find(A + "ext").set("cx", "0")
                if which == "cy":
                    xf.find(A + "ext").set("cy", "0")
        elif k < 0.4:
            ph.set("orient", "vert")
        elif k < 0.55:
            ph.set("sz", r.choice(["half", "quarter", "full"]))
        elif k < 0.65 and ph.get("type") not in ("title", "ctrTitle"):
            t = r.choice([x for x in LAYOUT_TYPES if x not in ("title", "ctrTitle")])
            if t is None:
                ph.attrib.pop("type", None)
            else:
                ph.set("type", t)
    return etree.tostring(root, xml_declaration=True, encoding="UTF-8", standalone=True)


def _mutate_notes_master(blob: bytes, r: random.Random) -> bytes:
    """Re-order the notes master's placeholders and (sometimes) give it a second body placeholder."""
    root = refpkg.parse(blob)
    tree = root.find(P + "cSld/" + P + "spTree")
    if tree is None:
        return blob
    phs = [sp for sp in tree if isinstance(sp.tag, str) and sp.tag == P + "sp" and sp.find(P + "nvSpPr/" + P + "nvPr/" + P + "ph") is not None]
    if len(phs) < 2:
        return blob
    k = r.random()
    if k < 0.7:
        order = list(phs)
        r.shuffle(order)
        for sp in phs:
            tree.remove(sp)
        for sp in order:
            tree.append(sp)
    if r.random() < 0.4:
        bodies = [sp for sp in phs if sp.find(P + "nvSpPr/" + P + "nvPr/" + P + "ph").get("type") == "body"]
        if bodies:
            new = copy.deepcopy(bodies[0])
            max_id = max([int(e.get("id")) for e in root.iter(P + "cNvPr") if (e.get("id") or "").isdigit()] or [1])
            c = new.find(P + "nvSpPr/" + P + "cNvPr")
            c.set("id", str(max_id + 1))
            c.set("name", "Second Notes Body")
            ph = new.find(P + "nvSpPr/" + P + "nvPr/" + P + "ph")
            used = {int(sp.find(P + "nvSpPr/" + P + "nvPr/" + P + "ph").get("idx", "0")) for sp in phs}
            idx = 7
            while idx in used:
                idx += 1
            ph.set("idx", str(idx))
            tree.append(new)
    return etree.tostring(root, xml_declaration=True, encoding="UTF-8", standalone=True)
