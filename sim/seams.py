"""Seams the simulator owns: wall clock (time.time, datetime.datetime.now), time zone.

`install()` must run before `pptx` or `xlsxwriter` is imported. It is idempotent.
Nothing in here draws from a PRNG or reads a real clock after installation.
"""
from __future__ import annotations

import datetime as _dtmod
import os
import sys
import time as _time

_real_datetime = _dtmod.datetime
_real_time = _time.time

# zip can only represent 1980-01-01 .. 2107-12-31
CLOCK_MIN = 315532800.0 + 86400.0  # 1980-01-02
CLOCK_MAX = 4354819200.0 - 86400.0  # 2107-12-30
CLOCK_EPOCH = 1700000000.0  # 2023-11-14T22:13:20Z, default start


class SimClock:
    """The only clock the system under test reads."""

    def __init__(self) -> None:
        self.now = CLOCK_EPOCH
        self.reads = 0
        self.jumps = 0
        self.back_jumps = 0
        self.elapsed = 0.0

    def reset(self, start: float = CLOCK_EPOCH) -> None:
        self.now = float(start)
        self.reads = 0
        self.jumps = 0
        self.back_jumps = 0
        self.elapsed = 0.0

    def time(self) -> float:
        self.reads += 1
        return self.now

    def advance(self, seconds: float) -> None:
        self.set(self.now + seconds)

    def set(self, t: float) -> None:
        t = min(max(float(t), CLOCK_MIN), CLOCK_MAX)
        if t < self.now:
            self.back_jumps += 1
        self.elapsed += abs(t - self.now)
        self.now = t

    def jump(self, seconds: float) -> None:
        self.jumps += 1
        self.set(self.now + seconds)


CLOCK = SimClock()
_installed = False


class _Meta(type(_real_datetime)):
    # so that isinstance(real_datetime_obj, datetime.datetime) keeps working whichever
    # import style the code under test uses
    def __instancecheck__(cls, obj):  # noqa: N805
        return isinstance(obj, _real_datetime)

    def __subclasscheck__(cls, sub):  # noqa: N805
        return issubclass(sub, _real_datetime)


class SimDateTime(_real_datetime, metaclass=_Meta):
    @classmethod
    def now(cls, tz=None):
        return _real_datetime.fromtimestamp(CLOCK.time(), tz)

    @classmethod
    def utcnow(cls):
        return _real_datetime.fromtimestamp(CLOCK.time(), _dtmod.timezone.utc).replace(tzinfo=None)

    @classmethod
    def today(cls):
        return _real_datetime.fromtimestamp(CLOCK.time())


def install() -> SimClock:
    global _installed
    if _installed:
        return CLOCK
    for m in ("pptx", "xlsxwriter"):
        if m in sys.modules:
            raise RuntimeError("seams.install() must run before %s is imported" % m)
    os.environ["TZ"] = "UTC"
    _time.tzset()
    _time.time = CLOCK.time
    _dtmod.datetime = SimDateTime
    _installed = True
    return CLOCK


def real_time() -> float:
    """Real wall clock, for throughput reporting only (never for decisions)."""
    return _real_time()


# ---- step budget: liveness as progress within a bounded number of steps ---------------------------------------------------------------

class StepBudgetExceeded(BaseException):
    """Raised inside the code under test when one library call has entered more Python functions than its budget.  A BaseException, and
    raised again at every further function entry, so that no `except Exception` of the code under test can absorb it."""


class step_budget:
    """Counts Python function entries (sys.monitoring PY_START) while active - a deterministic step measure: a function of code and input,
    not of wall-clock - and raises StepBudgetExceeded beyond `limit`.  `steps` holds the count afterwards."""

    TOOL = 4  # a tool id not used by debuggers / coverage / profilers

    def __init__(self, limit: int) -> None:
        self.limit = int(limit)
        self.steps = 0
        self.exceeded = False

    def __enter__(self):
        mon = sys.monitoring
        self._nested = mon.get_tool(self.TOOL) is not None
        if self._nested:
            return self
        mon.use_tool_id(self.TOOL, "verif-step-budget")

        exit_code = step_budget.__exit__.__code__

        def on_start(code, offset):
            if code is exit_code:
                return
            self.steps += 1
            if self.steps > self.limit:
                self.exceeded = True
                raise StepBudgetExceeded("more than %d function entries in one library call" % self.limit)

        mon.register_callback(self.TOOL, mon.events.PY_START, on_start)
        mon.set_events(self.TOOL, mon.events.PY_START)
        return self

    def __exit__(self, *exc):
        if self._nested:
            return False
        mon = sys.monitoring
        mon.set_events(self.TOOL, 0)
        mon.register_callback(self.TOOL, mon.events.PY_START, None)
        mon.free_tool_id(self.TOOL)
        return False


def budget_for(data: bytes, per_unit: int = 5000, base: int = 100) -> int:
    """Step budget for ONE open or save of the package `data`: the unchanged library enters about 150 Python functions per member
    (measured over the corpus, DESIGN 10.11); the budget allows `per_unit` per member and per relationship plus a constant."""
    import io
    import zipfile
    try:
        with zipfile.ZipFile(io.BytesIO(data)) as z:
            n = len(z.namelist())
            n += sum(z.read(i).count(b"Relationship") for i in z.namelist() if i.endswith(".rels"))
    except Exception:  # noqa: BLE001
        n = 0
    return per_unit * (n + base)
