"""Seams the simulator owns: wall clock (time.time, datetime.datetime.now), time zone.

`install()` must run before `pptx` or `xlsxwriter` is imported. It is idempotent.
Nothing in here draws from a PRNG or reads a real clock after installation.
"""
from __future__ import annotations

import datetime as _dtmod
import os
import sys
import time as _time

_real_datetime = _dtmod.datetime
_real_time = _time.time

# zip can only represent 1980-01-01 .. 2107-12-31
CLOCK_MIN = 315532800.0 + 86400.0  # 1980-01-02
CLOCK_MAX = 4354819200.0 - 86400.0  # 2107-12-30
CLOCK_EPOCH = 1700000000.0  # 2023-11-14T22:13:20Z, default start


class SimClock:
    """The only clock the system under test reads."""

    def __init__(self) -> None:
        self.now = CLOCK_EPOCH
        self.reads = 0
        self.jumps = 0
        self.back_jumps = 0
        self.elapsed = 0.0

    def reset(self, start: float = CLOCK_EPOCH) -> None:
        self.now = float(start)
        self.reads = 0
        self.jumps = 0
        self.back_jumps = 0
        self.elapsed = 0.0

    def time(self) -> float:
        self.reads += 1
        return self.now

    def advance(self, seconds: float) -> None:
        self.set(self.now + seconds)

    def set(self, t: float) -> None:
        t = min(max(float(t), CLOCK_MIN), CLOCK_MAX)
        if t < self.now:
            self.back_jumps += 1
        self.elapsed += abs(t - self.now)
        self.now = t

    def jump(self, seconds: float) -> None:
        self.jumps += 1
        self.set(self.now + seconds)


CLOCK = SimClock()
_installed = False


class _Meta(type(_real_datetime)):
    # so that isinstance(real_datetime_obj, datetime.datetime) keeps working whichever
    # import style the code under test uses
    def __instancecheck__(cls, obj):  # noqa: N805
        return isinstance(obj, _real_datetime)

    def __subclasscheck__(cls, sub):  # noqa: N805
        return issubclass(sub, _real_datetime)


class SimDateTime(_real_datetime, metaclass=_Meta):
    @classmethod
    def now(cls, tz=None):
        return _real_datetime.fromtimestamp(CLOCK.time(), tz)

    @classmethod
    def utcnow(cls):
        return _real_datetime.fromtimestamp(CLOCK.time(), _dtmod.timezone.utc).replace(tzinfo=None)

    @classmethod
    def today(cls):
        return _real_datetime.fromtimestamp(CLOCK.time())


def install() -> SimClock:
    global _installed
    if _installed:
        return CLOCK
    for m in ("pptx", "xlsxwriter"):
        if m in sys.modules:
            raise RuntimeError("seams.install() must run before %s is imported" % m)
    os.environ["TZ"] = "UTC"
    _time.tzset()
    _time.time = CLOCK.time
    _dtmod.datetime = SimDateTime
    _installed = True
    return CLOCK


def real_time() -> float:
    """Real wall clock, for throughput reporting only (never for decisions)."""
    return _real_time()
