"""Deterministic generators of input files and argument values from JSON recipes.

Recipes live in the trace, so replay needs no PRNG: bytes are a pure function of the recipe
(and of the Pillow build, which is part of the pinned environment)."""
from __future__ import annotations

import datetime as _dt
import io
import random

from .engine import jdump
from .rng import xml_text

_img_cache: dict[str, bytes] = {}

IMG_FORMATS = ["PNG", "JPEG", "GIF", "BMP", "TIFF"]
IMG_EXT = {"PNG": "png", "JPEG": "jpg", "GIF": "gif", "BMP": "bmp", "TIFF": "tiff"}
IMG_CT = {"PNG": "image/png", "JPEG": "image/jpeg", "GIF": "image/gif", "BMP": "image/bmp",
          "TIFF": "image/tiff"}
MISLEADING_EXT = ["png", "jpg", "gif", "bmp", "tiff", "dat", "PNG", "jpeg", "", "txt"]


def image_bytes(recipe: dict) -> bytes:
    k = jdump(recipe)
    b = _img_cache.get(k)
    if b is not None:
        return b
    from PIL import Image
    w, h = recipe["w"], recipe["h"]
    rr = random.Random(recipe.get("seed", 0))
    mode = recipe.get("mode", "RGB")
    n = {"RGB": 3, "L": 1, "RGBA": 4}[mode]
    img = Image.frombytes(mode, (w, h), rr.randbytes(w * h * n))
    fmt = recipe["fmt"]
    if fmt in ("JPEG", "BMP") and mode == "RGBA":
        img = img.convert("RGB")
    kw = {}
    dpi = recipe.get("dpi")
    if dpi is not None:
        kw["dpi"] = tuple(dpi)
    buf = io.BytesIO()
    img.save(buf, fmt, **kw)
    b = buf.getvalue()
    if len(_img_cache) > 512:
        _img_cache.clear()
    _img_cache[k] = b
    return b


def gen_image_recipe(r: random.Random, small=True) -> dict:
    fmt = r.choice(IMG_FORMATS)
    mx = 16 if small else 64
    rec = {"fmt": fmt, "w": r.randint(1, mx), "h": r.randint(1, mx), "seed": r.randint(0, 7),
           "mode": r.choice(["RGB", "RGB", "L"])}
    k = r.random()
    if k < 0.35:
        rec["dpi"] = None
    elif k < 0.55:
        d = r.choice([72, 96, 150, 300, 600])
        rec["dpi"] = [d, d]
    elif k < 0.7:
        rec["dpi"] = [r.choice([72.009, 95.9865, 299.9994, 1.4, 0.6]), r.choice([72.009, 96.5, 300.49, 2047.6])]
    elif k < 0.8:
        rec["dpi"] = [0, 0]
    elif k < 0.9:
        rec["dpi"] = [r.choice([2048, 2049, 5000, 100000]), r.choice([1, 2048, 3000])]
    else:
        rec["dpi"] = [r.choice([72, 300]), r.choice([36, 144, 600])]
    if fmt == "GIF":
        rec["dpi"] = None  # GIF carries no resolution
    return rec


def blob_bytes(recipe: dict) -> bytes:
    """{"seed": n, "len": k} -> pseudo-random bytes (videos, OLE payloads)."""
    return random.Random(recipe.get("seed", 0)).randbytes(recipe.get("len", 32))


# ---- chart data ---------------------------------------------------------------------------------

CATEGORY_TYPES = [
    "AREA", "AREA_STACKED", "AREA_STACKED_100", "BAR_CLUSTERED", "BAR_STACKED", "BAR_STACKED_100",
    "COLUMN_CLUSTERED", "COLUMN_STACKED", "COLUMN_STACKED_100", "DOUGHNUT", "DOUGHNUT_EXPLODED",
    "LINE", "LINE_MARKERS", "LINE_MARKERS_STACKED", "LINE_MARKERS_STACKED_100", "LINE_STACKED",
    "LINE_STACKED_100", "PIE", "PIE_EXPLODED", "RADAR", "RADAR_FILLED", "RADAR_MARKERS"]
XY_TYPES = ["XY_SCATTER", "XY_SCATTER_LINES", "XY_SCATTER_LINES_NO_MARKERS", "XY_SCATTER_SMOOTH",
            "XY_SCATTER_SMOOTH_NO_MARKERS"]
BUBBLE_TYPES = ["BUBBLE", "BUBBLE_THREE_D_EFFECT"]
ALL_CHART_TYPES = CATEGORY_TYPES + XY_TYPES + BUBBLE_TYPES
PIE_TYPES = {"PIE", "PIE_EXPLODED", "DOUGHNUT", "DOUGHNUT_EXPLODED"}

NUMBER_FORMATS = ["General", "0.00", "#,##0", "0%", "yyyy\\-mm\\-dd", '"$"#,##0.00', "0.0E+00", "@",
                  '#,##0 "<&>"']


def chart_kind(type_name: str) -> str:
    if type_name in XY_TYPES:
        return "xy"
    if type_name in BUBBLE_TYPES:
        return "bubble"
    return "cat"


def _num(r: random.Random):
    k = r.random()
    if k < 0.15:
        return None
    if k < 0.45:
        return r.randint(-1000, 1000)
    if k < 0.8:
        return round(r.uniform(-1e4, 1e4), r.choice([0, 1, 2, 6]))
    if k < 0.9:
        return r.choice([0, 0.0, -0.0, 1e-9, 1e15, -1e15, 0.1 + 0.2, 1 / 3])
    return float(r.randint(-5, 5))


def _label(r: random.Random, maxlen: int, allow_empty=True) -> str:
    """Series name / category label: mostly the shared markup-biased text; rarely a string that a spreadsheet writer
    could take for a formula (known finding F-19 keeps these rare so that they do not dominate the runs)."""
    if r.random() < 0.01:
        return r.choice(["=1+1", "=SUM(A1)", "{=x}", "="])
    return xml_text(r, maxlen, allow_empty)


def gen_chart_data(r: random.Random, kind: str, max_series=6, max_points=8, min_series=0,
                   allow_multilevel=True) -> dict:
    ns = r.choice([1, 1, 2, 3, r.randint(min_series, max(max_series, min_series)), r.randint(1, max(max_series, 1))])
    if r.random() < 0.04:
        ns = 0  # charts without series are legal input but end in known findings F-8 / F-10: keep them rare
    ns = max(ns, min_series)
    rec: dict = {"kind": kind}
    if r.random() < 0.3:
        rec["number_format"] = r.choice(NUMBER_FORMATS)
    if kind == "cat":
        ctype = r.choice(["str", "str", "str", "num", "date", "multi" if allow_multilevel else "str"])
        npts = r.choice([1, 2, 3, r.randint(1, max_points)])
        if ctype == "str":
            cats = [_label(r, 12) for _ in range(npts)]
        elif ctype == "num":
            cats = [r.choice([r.randint(-50, 50), round(r.uniform(-10, 10), 2)]) for _ in range(npts)]
        elif ctype == "date":
            base = r.choice([_dt.date(1900, 2, 27), _dt.date(1900, 3, 1), _dt.date(2016, 12, 27),
                             _dt.date(1904, 1, 2), _dt.date(1999, 12, 30), _dt.date(2017, 6, 28), _dt.date(2021, 3, 27), _dt.date(2021, 10, 30)])
            cats = [{"date": (base + _dt.timedelta(days=i * r.choice([1, 1, 7, 31]))).isoformat()}
                    for i in range(npts)]
            k = r.random()
            if k < 0.35:
                # datetime.datetime labels (documented): midnight mostly, sometimes with a time of day
                tod = r.choice(["00:00:00", "00:00:00", "00:00:00", "23:30:00", "06:15:00", "mixed"])
                for c_ in cats:
                    c_["time"] = tod if tod != "mixed" else r.choice(["00:00:00", "00:30:00", "12:00:00", "23:59:59"])
        else:
            # multi-level: tree with ragged branching, depth 2..4
            depth = r.randint(2, 4)

            def tree(d):
                label = _label(r, 8, allow_empty=False)
                if d == 1:
                    return {"label": label}
                n = r.choice([1, 1, 2, 3])  # uniform depth is a documented requirement
                return {"label": label, "sub": [tree(d - 1) for _ in range(n)]}
            cats = {"tree": [tree(depth) for _ in range(r.randint(1, 3))]}
            npts = _leaf_count(cats["tree"])
        rec["cat_type"] = ctype
        rec["categories"] = cats
        if r.random() < 0.15:
            rec["cat_number_format"] = r.choice(NUMBER_FORMATS)
        series = []
        for i in range(ns):
            nv = npts if r.random() < 0.8 else r.randint(0, npts + 2)
            s = {"name": _label(r, 12), "values": [_num(r) for _ in range(nv)]}
            if r.random() < 0.15:
                s["number_format"] = r.choice(NUMBER_FORMATS)
            if nv and r.random() < 0.1:
                # single data points with a number format of their own (add_data_point(value, number_format=...))
                s["point_formats"] = {str(r.randrange(nv)): r.choice(NUMBER_FORMATS) for _ in range(r.choice([1, 2]))}
            series.append(s)
        rec["series"] = series
    else:
        series = []
        for i in range(ns):
            npts = r.choice([0, 1, 2, 3, r.randint(0, max_points)])
            pts = []
            for _ in range(npts):
                x, y = _num(r), _num(r)     # None = a gap in the X or in the Y column (documented for data points)
                if kind == "bubble":
                    pts.append([x, y, r.choice([1, 2, 10, 0.5, r.randint(0, 30), None])])
                else:
                    pts.append([x, y])
            s = {"name": _label(r, 12), "points": pts}
            if r.random() < 0.15:
                s["number_format"] = r.choice(NUMBER_FORMATS)
            series.append(s)
        rec["series"] = series
    return rec


def _leaf_count(tree):
    n = 0
    for t in tree:
        sub = t.get("sub")
        n += _leaf_count(sub) if sub else 1
    return n


def build_chart_data(rec: dict):
    """recipe -> pptx ChartData object"""
    from pptx.chart.data import BubbleChartData, CategoryChartData, XyChartData
    kind = rec["kind"]
    nf = rec.get("number_format", "General")
    if kind == "cat":
        cd = CategoryChartData(number_format=nf)
        cats = rec["categories"]
        if isinstance(cats, dict):
            for t in cats["tree"]:
                c = cd.add_category(t["label"])
                for s_ in t.get("sub", []):
                    _add_sub(c, s_)
        else:
            vals = []
            for c in cats:
                if isinstance(c, dict):
                    d_ = _dt.date.fromisoformat(c["date"])
                    if c.get("time"):
                        hh, mm, ss = map(int, c["time"].split(":"))
                        from . import seams
                        vals.append(seams._real_datetime(d_.year, d_.month, d_.day, hh, mm, ss))
                    else:
                        vals.append(d_)
                else:
                    vals.append(c)
            cd.categories = vals
        if "cat_number_format" in rec:
            cd.categories.number_format = rec["cat_number_format"]
        for s in rec["series"]:
            if s.get("point_formats"):
                ser = cd.add_series(s["name"], (), s.get("number_format"))
                for i_, v_ in enumerate(s["values"]):
                    ser.add_data_point(v_, s["point_formats"].get(str(i_)))
            else:
                cd.add_series(s["name"], s["values"], s.get("number_format"))
        return cd
    cd = XyChartData(number_format=nf) if kind == "xy" else BubbleChartData(number_format=nf)
    for s in rec["series"]:
        ser = cd.add_series(s["name"], s.get("number_format"))
        for p in s["points"]:
            ser.add_data_point(*p)
    return cd


def _add_sub(cat, node):
    c = cat.add_sub_category(node["label"])
    for s in node.get("sub", []):
        _add_sub(c, s)
