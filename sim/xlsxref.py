"""Independent reader for the embedded .xlsx of a chart (zipfile + lxml; no pptx / XlsxWriter import)."""
from __future__ import annotations

import io
import re
import zipfile

from lxml import etree

S = "{http://schemas.openxmlformats.org/spreadsheetml/2006/main}"
_REF = re.compile(r"^(?:'?([^'!]+)'?!)?\$?([A-Z]+)\$?(\d+)(?::\$?([A-Z]+)\$?(\d+))?$")


def col_num(letters: str) -> int:
    n = 0
    for ch in letters:
        n = n * 26 + (ord(ch) - 64)
    return n


def parse_ref(ref: str):
    """'Sheet1!$A$2:$B$5' -> (sheet, c1, r1, c2, r2)  (1-based, inclusive; not normalised)"""
    m = _REF.match(ref.strip())
    if not m:
        raise ValueError("unparseable reference %r" % ref)
    sheet, c1, r1, c2, r2 = m.groups()
    c1n, r1n = col_num(c1), int(r1)
    if c2 is None:
        return sheet, c1n, r1n, c1n, r1n
    return sheet, c1n, r1n, col_num(c2), int(r2)


class Workbook:
    def __init__(self, data: bytes):
        z = zipfile.ZipFile(io.BytesIO(data))
        names = z.namelist()
        wb = etree.fromstring(z.read("xl/workbook.xml"))
        pr = wb.find(S + "workbookPr")
        self.date1904 = pr is not None and pr.get("date1904") in ("1", "true")
        self.sheet_names = [s.get("name") for s in wb.iter(S + "sheet")]
        self.shared = []
        if "xl/sharedStrings.xml" in names:
            sst = etree.fromstring(z.read("xl/sharedStrings.xml"))
            for si in sst.findall(S + "si"):
                self.shared.append("".join(t.text or "" for t in si.iter(S + "t")))
        self.cells = {}
        self.formulas = {}
        sheet = etree.fromstring(z.read("xl/worksheets/sheet1.xml"))
        for c in sheet.iter(S + "c"):
            m = re.match(r"^([A-Z]+)(\d+)$", c.get("r"))
            key = (int(m.group(2)), col_num(m.group(1)))
            t = c.get("t")
            v = c.find(S + "v")
            f = c.find(S + "f")
            if f is not None:
                self.formulas[key] = f.text
            if t == "s":
                self.cells[key] = self.shared[int(v.text)]
            elif t == "inlineStr":
                self.cells[key] = "".join(x.text or "" for x in c.iter(S + "t"))
            elif t == "str":
                self.cells[key] = v.text if v is not None and v.text is not None else ""
            elif t == "b":
                self.cells[key] = v.text == "1"
            elif v is not None and v.text is not None:
                self.cells[key] = float(v.text)

    def cell(self, row, col):
        return self.cells.get((row, col))
