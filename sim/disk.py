"""Simulated storage: SimDisk (durable name->bytes), SimSource (readable, fault-injecting),
SimSink (writable, fault-injecting, three kinds), scratch dir on tmpfs for path forms."""
from __future__ import annotations

import atexit
import errno
import os
import shutil


class SimCrash(BaseException):
    """The simulated process died at this instant (BaseException: `except Exception` in the
    code under test must not be able to swallow a crash)."""


class FaultCounters(dict):
    def hit(self, kind: str, n: int = 1) -> None:
        self[kind] = self.get(kind, 0) + n


# ------------------------------------------------------------------------------------------------


class SimSource:
    """Seekable binary file-like for reading. Fault plan (dict or None):
    {"kind": "eio", "at": k}         -> OSError(EIO) on the k-th read call (1-based)
    {"kind": "eof", "at": m}         -> content is truncated to its first m bytes
    """

    def __init__(self, data: bytes, pos: int = 0, fault: dict | None = None,
                 counters: FaultCounters | None = None, name: str | None = None):
        self._full = bytes(data)
        self._data = self._full
        self._pos = max(0, min(pos, len(self._data)))
        self._fault = fault
        self._reads = 0
        self.fired = False
        self.counters = counters if counters is not None else FaultCounters()
        if name is not None:
            self.name = name
        if fault and fault.get("kind") == "eof":
            self._data = self._full[: max(0, int(fault["at"]))]
            self._pos = min(self._pos, len(self._data))
            if len(self._data) < len(self._full):
                self.fired = True
                self.counters.hit("source_eof")

    def readable(self):
        return True

    def seekable(self):
        return True

    def writable(self):
        return False

    def tell(self):
        return self._pos

    def seek(self, off, whence=0):
        if whence == 0:
            p = off
        elif whence == 1:
            p = self._pos + off
        elif whence == 2:
            p = len(self._data) + off
        else:
            raise ValueError("whence")
        if p < 0:
            raise OSError(errno.EINVAL, "negative seek")
        self._pos = p
        return p

    def read(self, n=-1):
        self._reads += 1
        f = self._fault
        if f and f.get("kind") == "eio" and self._reads == int(f["at"]):
            self.fired = True
            self.counters.hit("source_eio")
            raise OSError(errno.EIO, "simulated read error")
        if n is None or n < 0:
            out = self._data[self._pos:]
        else:
            out = self._data[self._pos:self._pos + n]
        self._pos += len(out)
        return out

    def close(self):
        pass

    def __enter__(self):
        return self

    def __exit__(self, *a):
        return False


# ------------------------------------------------------------------------------------------------


class SimSink:
    """Binary file-like for writing.

    kind: "seekable" | "unseekable"
    fault plan (dict or None):
      {"kind": "enospc"|"eio", "at": k, "sticky": bool}  -> OSError on k-th write (and later if sticky)
      {"kind": "crash", "at": k, "torn": b}               -> first b bytes of k-th write land, then SimCrash;
                                                             every later call raises SimCrash too
    `image()` is what the medium holds.
    """

    def __init__(self, kind: str = "seekable", fault: dict | None = None,
                 counters: FaultCounters | None = None):
        assert kind in ("seekable", "unseekable")
        self.kind = kind
        self._buf = bytearray()
        self._pos = 0
        self._fault = fault
        self.writes = 0
        self.log: list[tuple[int, int]] = []  # (offset, length)
        self.fired = False
        self.dead = False
        self.counters = counters if counters is not None else FaultCounters()

    # -- capability surface -------------------------------------------------------------
    def writable(self):
        return True

    def readable(self):
        return False

    def seekable(self):
        if self.dead:
            raise SimCrash()
        return self.kind == "seekable"

    def __getattr__(self, name):
        # unseekable sinks have no tell/seek at all (zipfile probes with try/except)
        if name in ("tell", "seek") and self.__dict__.get("kind") == "seekable":
            return getattr(self, "_" + name)
        raise AttributeError(name)

    def _tell(self):
        if self.dead:
            raise SimCrash()
        return self._pos

    def _seek(self, off, whence=0):
        if self.dead:
            raise SimCrash()
        if whence == 0:
            p = off
        elif whence == 1:
            p = self._pos + off
        else:
            p = len(self._buf) + off
        self._pos = p
        return p

    def flush(self):
        if self.dead:
            raise SimCrash()

    def close(self):
        pass

    # -- writes -------------------------------------------------------------------------
    def _land(self, data: bytes) -> None:
        end = self._pos + len(data)
        if self._pos > len(self._buf):
            self._buf.extend(b"\0" * (self._pos - len(self._buf)))
        self._buf[self._pos:end] = data
        self.log.append((self._pos, len(data)))
        self._pos = end

    def write(self, data):
        if self.dead:
            raise SimCrash()
        data = bytes(data)
        self.writes += 1
        f = self._fault
        if f:
            k = int(f["at"])
            kind = f["kind"]
            if kind in ("enospc", "eio"):
                if self.writes == k or (f.get("sticky") and self.writes > k):
                    if not self.fired:
                        self.counters.hit("sink_" + kind + ("_sticky" if f.get("sticky") else ""))
                    self.fired = True
                    raise OSError(errno.ENOSPC if kind == "enospc" else errno.EIO,
                                  "simulated write error")
            elif kind == "crash" and self.writes == k:
                torn = max(0, min(int(f.get("torn", 0)), len(data)))
                self._land(data[:torn])
                self.fired = True
                self.dead = True
                self.counters.hit("sink_crash")
                raise SimCrash()
        self._land(data)
        return len(data)

    def image(self) -> bytes:
        return bytes(self._buf)


# ------------------------------------------------------------------------------------------------

_SCRATCH = None


def scratch_dir() -> str:
    """Per-process scratch directory on tmpfs for the path forms; removed at exit."""
    global _SCRATCH
    pid = os.getpid()
    if _SCRATCH is None or _SCRATCH[0] != pid:
        base = "/dev/shm" if os.path.isdir("/dev/shm") else "/tmp"
        d = os.path.join(base, "verif-pptx-%d" % pid)
        shutil.rmtree(d, ignore_errors=True)
        os.makedirs(d)
        _SCRATCH = (pid, d)
        atexit.register(_cleanup, pid, d)
    return _SCRATCH[1]


def _cleanup(pid, d):
    if os.getpid() == pid:
        shutil.rmtree(d, ignore_errors=True)


def cleanup_scratch():
    global _SCRATCH
    if _SCRATCH is not None and _SCRATCH[0] == os.getpid():
        shutil.rmtree(_SCRATCH[1], ignore_errors=True)
        _SCRATCH = None


def cleanup_stale():
    """Remove scratch directories left by processes that no longer exist (workers end with os._exit)."""
    base = "/dev/shm" if os.path.isdir("/dev/shm") else "/tmp"
    for n in os.listdir(base):
        if n.startswith("verif-pptx-"):
            try:
                pid = int(n.rpartition("-")[2])
                os.kill(pid, 0)
            except (ValueError, ProcessLookupError):
                shutil.rmtree(os.path.join(base, n), ignore_errors=True)
            except PermissionError:
                pass


def _stamp(path: str) -> None:
    """File timestamps are part of the simulated storage: they read the simulated clock (coarse, like a file system with
    one-second or two-second timestamps), never the real one."""
    from . import seams
    t = float(int(seams.CLOCK.now))
    try:
        os.utime(path, (t, t))
    except OSError:
        pass


class SimDisk:
    """Durable state of the world: name -> bytes."""

    def __init__(self):
        self.files: dict[str, bytes] = {}

    def put(self, name: str, data: bytes) -> None:
        self.files[name] = bytes(data)

    def get(self, name: str) -> bytes:
        return self.files[name]

    def materialize(self, name: str, suffix: str = "") -> str:
        """Write file `name` under the scratch dir, return its real path."""
        p = os.path.join(scratch_dir(), name.replace("/", "_") + suffix)
        with open(p, "wb") as f:
            f.write(self.files[name])
        _stamp(p)
        return p

    def materialize_dir(self, name: str, link: bool = False) -> str:
        """Extract zip `name` into a scratch directory (directory-form package).  link=True: the sub-directories of the second level that
        hold files (ppt/media, ppt/slides, ...) live elsewhere on the disk and are reached through symbolic links (a shared media folder)."""
        import io
        import zipfile
        d = os.path.join(scratch_dir(), name.replace("/", "_") + ".d")
        shutil.rmtree(d, ignore_errors=True)
        shutil.rmtree(d + ".linked", ignore_errors=True)
        os.makedirs(d)
        with zipfile.ZipFile(io.BytesIO(self.files[name])) as z:
            for n in z.namelist():
                if n.endswith("/"):
                    continue
                p = os.path.join(d, n)
                os.makedirs(os.path.dirname(p), exist_ok=True)
                with open(p, "wb") as f:
                    f.write(z.read(n))
                _stamp(p)
        if link:
            store = d + ".linked"
            os.makedirs(store)
            k = 0
            for top in sorted(os.listdir(d)):
                tp = os.path.join(d, top)
                if not os.path.isdir(tp):
                    continue
                for sub in sorted(os.listdir(tp)):
                    sp = os.path.join(tp, sub)
                    if os.path.isdir(sp) and not sub.startswith("_rels") and k % 2 == 0:
                        dest = os.path.join(store, "%d-%s" % (k, sub))
                        shutil.move(sp, dest)
                        os.symlink(dest, sp)
                    if os.path.isdir(sp):
                        k += 1
        return d
