"""CLI: sim/main.py <ID> [--tier quick|thorough] [--seed N] [--replay FILE] [--digests i,j,k]"""
from __future__ import annotations

import argparse
import os
import sys

VERIF = os.path.dirname(os.path.dirname(os.path.abspath(__file__)))
REPO_SRC = os.environ.get("VERIF_REPO_SRC", "/repo/src")


def main(argv=None) -> int:
    ap = argparse.ArgumentParser()
    ap.add_argument("pid")
    ap.add_argument("--tier", default=os.environ.get("VERIF_TIER", "quick"), choices=["quick", "thorough"])
    ap.add_argument("--seed", type=int, default=int(os.environ.get("VERIF_SEED", "0") or 0))
    ap.add_argument("--replay")
    ap.add_argument("--digests")
    ap.add_argument("--workers", type=int, default=int(os.environ.get("VERIF_WORKERS", "0") or 0))
    args = ap.parse_args(argv)

    # stable hashing for the main run (the determinism self-test uses other values on purpose)
    if os.environ.get("PYTHONHASHSEED") is None:
        os.environ["PYTHONHASHSEED"] = "0"
        os.execv(sys.executable, [sys.executable, os.path.abspath(__file__)] + (argv or sys.argv[1:]))

    sys.dont_write_bytecode = True
    import warnings
    warnings.filterwarnings("ignore")
    sys.path.insert(0, VERIF)
    sys.path.insert(0, REPO_SRC)
    from sim import seams
    seams.install()
    import pptx  # noqa: E402
    if not os.path.abspath(pptx.__file__).startswith(os.path.abspath(REPO_SRC)):
        print("HARNESS-ERROR: pptx imported from %s, expected under %s" % (pptx.__file__, REPO_SRC))
        return 2
    if os.environ.get("PYTHON_PPTX_VERIF") is None:
        os.environ["PYTHON_PPTX_VERIF"] = "1"

    from sim import runner
    pid = args.pid.upper()
    try:
        if args.replay:
            return runner.replay_file(pid, args.replay)
        if args.digests is not None:
            runner.print_digests(pid, args.tier, args.seed, [int(x) for x in args.digests.split(",") if x])
            return 0
        return runner.run_check(pid, args.tier, args.seed, args.workers)
    finally:
        from sim.disk import cleanup_scratch, cleanup_stale
        cleanup_scratch()
        cleanup_stale()


if __name__ == "__main__":
    try:
        rc = main()
    except SystemExit:
        raise
    except BaseException:  # noqa: BLE001
        import traceback
        traceback.print_exc()
        print("HARNESS-ERROR: uncaught exception")
        rc = 2
    sys.exit(rc)
