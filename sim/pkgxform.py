"""Package-level transformers on stored .pptx bytes (no pptx import): used to build irregular
start states (C02/C06/C13) and the stored-state faults of C16."""
from __future__ import annotations

import io
import random
import re
import zipfile

from lxml import etree

from . import refpkg

NS_CT = refpkg.NS_CT
NS_REL = refpkg.NS_REL


def read_members(data: bytes):
    z = zipfile.ZipFile(io.BytesIO(data))
    return [(i.filename, z.read(i)) for i in z.infolist() if not i.filename.endswith("/")]


def write_members(members, stored=False, date=(2020, 1, 1, 0, 0, 0)) -> bytes:
    buf = io.BytesIO()
    with zipfile.ZipFile(buf, "w", zipfile.ZIP_STORED if stored else zipfile.ZIP_DEFLATED) as z:
        for name, blob in members:
            zi = zipfile.ZipInfo(name, date_time=date)
            zi.compress_type = zipfile.ZIP_STORED if stored else zipfile.ZIP_DEFLATED
            z.writestr(zi, blob)
    return buf.getvalue()


def relref(from_part: str, to_part: str) -> str:
    """Relative reference from the directory of `from_part` ('/' for package) to `to_part`."""
    if from_part == "/":
        return to_part[1:]
    fd = from_part.split("/")[1:-1]
    td = to_part.split("/")[1:]
    i = 0
    while i < len(fd) and i < len(td) - 1 and fd[i] == td[i]:
        i += 1
    return "/".join([".."] * (len(fd) - i) + td[i:])


def rename_parts(data: bytes, mapping: dict[str, str]) -> bytes:
    """Rename parts (partname -> partname) keeping relationships and content types consistent."""
    members = read_members(data)
    names = {"/" + n for n, _ in members}
    out = []
    for n, blob in members:
        pn = "/" + n
        if pn == "/[Content_Types].xml":
            root = refpkg.parse(blob)
            for el in root:
                if isinstance(el.tag, str) and etree.QName(el).localname == "Override":
                    k = el.get("PartName")
                    if k in mapping:
                        el.set("PartName", mapping[k])
            blob = etree.tostring(root, xml_declaration=True, encoding="UTF-8", standalone=True)
            out.append((n, blob))
            continue
        if refpkg._is_rels_item(pn):
            src = refpkg._source_of_rels_item(pn)
            new_src = mapping.get(src, src)
            root = refpkg.parse(blob)
            changed = False
            for el in root:
                if not isinstance(el.tag, str) or el.get("TargetMode") == "External":
                    continue
                tgt = refpkg.resolve(src, el.get("Target"))
                new_tgt = mapping.get(tgt, tgt)
                if new_tgt != tgt or new_src != src:
                    if tgt in names:
                        el.set("Target", relref(new_src, new_tgt))
                        changed = True
            if changed:
                blob = etree.tostring(root, xml_declaration=True, encoding="UTF-8", standalone=True)
            out.append((refpkg.rels_name_for(new_src)[1:], blob))
            continue
        out.append((mapping.get(pn, pn)[1:], blob))
    return write_members(out)


_SLIDE_RE = re.compile(r"^/ppt/slides/slide(\d+)\.xml$")


def rename_slides(data: bytes, mode: str, seed: int = 0) -> bytes:
    members = read_members(data)
    slides = sorted((int(_SLIDE_RE.match("/" + n).group(1)), "/" + n) for n, _ in members
                    if _SLIDE_RE.match("/" + n))
    if not slides:
        return data
    nums = [k for k, _ in slides]
    r = random.Random(seed)
    if mode == "reverse":
        new = list(reversed(nums))
        if len(nums) == 1:
            new = [nums[0] + 6]
    elif mode == "rotate":
        new = nums[1:] + nums[:1]
        if len(nums) == 1:
            new = [nums[0] + 2]
    elif mode == "gaps":
        new = [2 * k + 3 for k in nums]
    elif mode == "lastfits":
        # non-contiguous and out of order, but the LAST slide is already called slide<count>
        n = len(nums)
        new = [1] + [n + 2 * i for i in range(1, n - 1)] + [n] if n >= 3 else ([2 * n + 1, n] if n == 2 else [nums[0] + 4])
        if n >= 3:
            new[1:-1] = list(reversed(new[1:-1]))
    elif mode == "firstbig":
        n = len(nums)
        new = [n + 1] + list(range(1, n - 1)) + [n] if n >= 3 else [k + 3 for k in nums]
    else:
        new = [k + r.choice([0, 0, 10, 100]) for k in nums]
        r.shuffle(new)
    # two-phase to avoid collisions
    tmp = {pn: "/ppt/slides/tmpslide%d.xml" % i for i, (_k, pn) in enumerate(slides)}
    data = rename_parts(data, tmp)
    fin = {tmp[pn]: "/ppt/slides/slide%d.xml" % new[i] for i, (_k, pn) in enumerate(slides)}
    return rename_parts(data, fin)


def drop_notes_master_rel(data: bytes) -> bytes:
    """A legal but unusual deck: notes slides (each related to the notes master) while the presentation part itself has
    neither the notesMaster relationship nor the p:notesMasterIdLst entry."""
    P = "{http://schemas.openxmlformats.org/presentationml/2006/main}"
    out = []
    rid = None
    members = read_members(data)
    for n, b in members:
        if n == "ppt/_rels/presentation.xml.rels":
            root = refpkg.parse(b)
            for el in list(root):
                if isinstance(el.tag, str) and (el.get("Type") or "").endswith("/notesMaster"):
                    rid = el.get("Id")
                    root.remove(el)
            b = etree.tostring(root, xml_declaration=True, encoding="UTF-8", standalone=True)
        out.append((n, b))
    out2 = []
    for n, b in out:
        if n == "ppt/presentation.xml" and rid is not None:
            root = refpkg.parse(b)
            lst = root.find(P + "notesMasterIdLst")
            if lst is not None:
                root.remove(lst)
            b = etree.tostring(root, xml_declaration=True, encoding="UTF-8", standalone=True)
        out2.append((n, b))
    return write_members(out2)


_SLIDE_MEMBER = re.compile(r"^ppt/slides/slide\d+\.xml$")


def rewrite_slides(data: bytes, how: str) -> bytes:
    """What another producer might legally write for the same slides:
    strip_tblPr  - a:tbl without its optional a:tblPr child
    pct_literals - (reserved)
    """
    A = "{http://schemas.openxmlformats.org/drawingml/2006/main}"
    out = []
    for n, b in read_members(data):
        if _SLIDE_MEMBER.match(n):
            root = refpkg.parse(b)
            changed = False
            if how == "strip_tblPr":
                for tbl in root.iter(A + "tbl"):
                    pr = tbl.find(A + "tblPr")
                    if pr is not None:
                        tbl.remove(pr)
                        changed = True
            if changed:
                b = etree.tostring(root, xml_declaration=True, encoding="UTF-8", standalone=True)
        out.append((n, b))
    return write_members(out)


def apply(data: bytes, x: dict) -> bytes:
    kind = x["kind"]
    if kind == "rewrite_slides":
        return rewrite_slides(data, x.get("how", "strip_tblPr"))
    if kind == "drop_notes_master_rel":
        return drop_notes_master_rel(data)
    if kind == "rename_slides":
        return rename_slides(data, x.get("mode", "reverse"), x.get("seed", 0))
    if kind == "ids":
        from . import idmutate
        return idmutate.apply(data, x)
    if kind == "c16":
        from .props import c16
        return c16.apply_fault(data, x)
    if kind == "core_xml":
        from .props import c18
        return c18.apply_core_xform(data, x)
    if kind == "layout_mutate":
        from . import layoutmutate
        return layoutmutate.apply(data, x)
    raise ValueError("unknown xform %r" % kind)
