"""Package-level transformers on stored .pptx bytes (no pptx import): used to build irregular
start states (C02/C06/C13) and the stored-state faults of C16."""
from __future__ import annotations

import io
import random
import re
import zipfile

from lxml import etree

from . import refpkg

NS_CT = refpkg.NS_CT
NS_REL = refpkg.NS_REL


def read_members(data: bytes):
    z = zipfile.ZipFile(io.BytesIO(data))
    return [(i.filename, z.read(i)) for i in z.infolist() if not i.filename.endswith("/")]


def write_members(members, stored=False, date=(2020, 1, 1, 0, 0, 0)) -> bytes:
    buf = io.BytesIO()
    with zipfile.ZipFile(buf, "w", zipfile.ZIP_STORED if stored else zipfile.ZIP_DEFLATED) as z:
        for name, blob in members:
            zi = zipfile.ZipInfo(name, date_time=date)
            zi.compress_type = zipfile.ZIP_STORED if stored else zipfile.ZIP_DEFLATED
            z.writestr(zi, blob)
    return buf.getvalue()


def relref(from_part: str, to_part: str) -> str:
    """Relative reference from the directory of `from_part` ('/' for package) to `to_part`."""
    if from_part == "/":
        return to_part[1:]
    fd = from_part.split("/")[1:-1]
    td = to_part.split("/")[1:]
    i = 0
    while i < len(fd) and i < len(td) - 1 and fd[i] == td[i]:
        i += 1
    return "/".join([".."] * (len(fd) - i) + td[i:])


def rename_parts(data: bytes, mapping: dict[str, str]) -> bytes:
    """Rename parts (partname -> partname) keeping relationships and content types consistent."""
    members = read_members(data)
    names = {"/" + n for n, _ in members}
    out = []
    for n, blob in members:
        pn = "/" + n
        if pn == "/[Content_Types].xml":
            root = refpkg.parse(blob)
            for el in root:
                if isinstance(el.tag, str) and etree.QName(el).localname == "Override":
                    k = el.get("PartName")
                    if k in mapping:
                        el.set("PartName", mapping[k])
            blob = etree.tostring(root, xml_declaration=True, encoding="UTF-8", standalone=True)
            out.append((n, blob))
            continue
        if refpkg._is_rels_item(pn):
            src = refpkg._source_of_rels_item(pn)
            new_src = mapping.get(src, src)
            root = refpkg.parse(blob)
            changed = False
            for el in root:
                if not isinstance(el.tag, str) or el.get("TargetMode") == "External":
                    continue
                tgt = refpkg.resolve(src, el.get("Target"))
                new_tgt = mapping.get(tgt, tgt)
                if new_tgt != tgt or new_src != src:
                    if tgt in names:
                        el.set("Target", relref(new_src, new_tgt))
                        changed = True
            if changed:
                blob = etree.tostring(root, xml_declaration=True, encoding="UTF-8", standalone=True)
            out.append((refpkg.rels_name_for(new_src)[1:], blob))
            continue
        out.append((mapping.get(pn, pn)[1:], blob))
    return write_members(out)


_SLIDE_RE = re.compile(r"^/ppt/slides/slide(\d+)\.xml$")


def rename_slides(data: bytes, mode: str, seed: int = 0) -> bytes:
    members = read_members(data)
    slides = sorted((int(_SLIDE_RE.match("/" + n).group(1)), "/" + n) for n, _ in members
                    if _SLIDE_RE.match("/" + n))
    if not slides:
        return data
    nums = [k for k, _ in slides]
    r = random.Random(seed)
    if mode == "reverse":
        new = list(reversed(nums))
        if len(nums) == 1:
            new = [nums[0] + 6]
    elif mode == "rotate":
        new = nums[1:] + nums[:1]
        if len(nums) == 1:
            new = [nums[0] + 2]
    elif mode == "gaps":
        new = [2 * k + 3 for k in nums]
    elif mode == "lastfits":
        # non-contiguous and out of order, but the LAST slide is already called slide<count>
        n = len(nums)
        new = [1] + [n + 2 * i for i in range(1, n - 1)] + [n] if n >= 3 else ([2 * n + 1, n] if n == 2 else [nums[0] + 4])
        if n >= 3:
            new[1:-1] = list(reversed(new[1:-1]))
    elif mode in ("midnext", "midnext2"):
        # first and last already carry the names their positions call for; one in the middle is called slide<N+1> (resp. N+2)
        n = len(nums)
        new = list(range(1, n + 1))
        if n >= 3:
            new[1 + (seed % (n - 2))] = n + (1 if mode == "midnext" else 2)
        else:
            new = [k + 1 for k in new]
    elif mode == "firstbig":
        n = len(nums)
        new = [n + 1] + list(range(1, n - 1)) + [n] if n >= 3 else [k + 3 for k in nums]
    else:
        new = [k + r.choice([0, 0, 10, 100]) for k in nums]
        seen_ = set()
        for i_, v_ in enumerate(new):       # distinct numbers (1 + 10 and 11 + 0 would collide)
            while v_ in seen_:
                v_ += 1000
            seen_.add(v_)
            new[i_] = v_
        r.shuffle(new)
    # two-phase to avoid collisions
    tmp = {pn: "/ppt/slides/tmpslide%d.xml" % i for i, (_k, pn) in enumerate(slides)}
    data = rename_parts(data, tmp)
    fin = {tmp[pn]: "/ppt/slides/slide%d.xml" % new[i] for i, (_k, pn) in enumerate(slides)}
    return rename_parts(data, fin)


FAMILIES = {
    "charts": r"^/ppt/charts/(chart)(\d+)(\.xml)$",
    "themes": r"^/ppt/theme/(theme)(\d+)(\.xml)$",
    "notes": r"^/ppt/notesSlides/(notesSlide)(\d+)(\.xml)$",
    "media": r"^/ppt/media/(image|media)(\d+)(\.\w+)$",
    "embeddings": r"^/ppt/embeddings/([A-Za-z_]+?)(\d+)(\.\w+)$",
    "layouts": r"^/ppt/slideLayouts/(slideLayout)(\d+)(\.xml)$",
    "masters": r"^/ppt/slideMasters/(slideMaster)(\d+)(\.xml)$",
}


def renumber(data: bytes, family: str, mode: str, seed: int = 0) -> bytes:
    """Another producer's numbering of one part family: `odd` 1,3,5.. (holes below the maximum; count+1 is taken),
    `shift` k+1 (number 1 free, count+1 taken), `sparse` seeded distinct numbers from 1..3n+3, `reverse`.  Relationships and
    content-type overrides follow; the package stays closed and means the same."""
    rx = re.compile(FAMILIES[family])
    members = read_members(data)
    fam = sorted(((m.group(1), int(m.group(2)), m.group(3), "/" + n) for n, _ in members for m in [rx.match("/" + n)] if m),
                 key=lambda t: (t[0], t[1], t[2]))
    if not fam:
        return data
    r = random.Random(seed)
    by_stem: dict[str, list] = {}
    for stem, k, ext, pn in fam:
        by_stem.setdefault(stem, []).append((k, ext, pn))
    tmp, fin = {}, {}
    for stem, lst in sorted(by_stem.items()):
        nums = [k for k, _e, _p in lst]
        n = len(nums)
        if mode == "odd":
            new = [2 * i + 1 for i in range(n)]
        elif mode == "shift":
            new = [k + 1 for k in nums]
        elif mode == "reverse":
            new = list(reversed(nums)) if n > 1 else [nums[0] + 2]
        else:
            new = r.sample(range(1, 3 * n + 4), n)
        d = lst[0][2].rpartition("/")[0]
        for i, (k, ext, pn) in enumerate(lst):
            t = "%s/tmp%s%d%s" % (d, stem, i, ext)
            tmp[pn] = t
            fin[t] = "%s/%s%d%s" % (d, stem, new[i], ext)
    data = rename_parts(data, tmp)
    return rename_parts(data, fin)


R_NS = "{http://schemas.openxmlformats.org/officeDocument/2006/relationships}"


def respell_rids(data: bytes, style: str = "mixed", seed: int = 0) -> bytes:
    """Relationship ids as other producers write them (Open XML SDK: R<hex>; zero-padded; sparse; plain words).  Every r:* attribute of
    the source part that carried the old id carries the new one: the package means the same."""
    r = random.Random(seed)
    members = read_members(data)
    by_name = {"/" + n: b for n, b in members}
    newxml = {}
    newrels = {}
    for n, blob in members:
        pn = "/" + n
        if not refpkg._is_rels_item(pn):
            continue
        src = refpkg._source_of_rels_item(pn)
        root = refpkg.parse(blob)
        rels = [el for el in root if isinstance(el.tag, str)]
        if not rels or (src != "/" and src.endswith(".vml")):
            continue
        st = style if style != "mixed" else r.choice(["hex", "padded", "sparse", "words", "hex"])
        mapping = {}
        used = set()
        for i, el in enumerate(rels):
            old_id = el.get("Id")
            if st == "hex":
                nid = "R%08x" % r.getrandbits(32)
            elif st == "padded":
                nid = "rId0%d" % (i + 1)
            elif st == "sparse":
                nid = "rId%d" % (3 * i + r.choice([2, 3, 4]))
            else:
                nid = "%s%d" % (r.choice(["rel", "id", "R", "x"]), i + 1)
            while nid in used:
                nid += "a"
            used.add(nid)
            mapping[old_id] = nid
        if src != "/" and src in by_name:
            try:
                x = refpkg.parse(by_name[src])
            except Exception:  # noqa: BLE001  (binary source part: nothing refers to the ids)
                x = None
            if x is not None:
                ok = True
                changed = False
                for el in x.iter():
                    if not isinstance(el.tag, str):
                        continue
                    for k, v in list(el.attrib.items()):
                        if k.startswith(R_NS) and v in mapping:
                            el.set(k, mapping[v])
                            changed = True
                        elif not k.startswith(R_NS) and etree.QName(k).localname in ("relid", "pict") and v in mapping:
                            ok = False      # legacy VML-style references: leave this part's ids alone
                if not ok:
                    continue
                if changed:
                    newxml[src] = etree.tostring(x, xml_declaration=True, encoding="UTF-8", standalone=True)
        for el in rels:
            el.set("Id", mapping[el.get("Id")])
        newrels[pn] = etree.tostring(root, xml_declaration=True, encoding="UTF-8", standalone=True)
    out = []
    for n, blob in members:
        pn = "/" + n
        out.append((n, newrels.get(pn, newxml.get(pn, blob))))
    return write_members(out)


def explicit_internal(data: bytes, rate: float = 1.0, seed: int = 0) -> bytes:
    """TargetMode is optional with default "Internal"; several producers spell it out."""
    r = random.Random(seed)
    out = []
    for n, blob in read_members(data):
        if refpkg._is_rels_item("/" + n):
            root = refpkg.parse(blob)
            ch = False
            for el in root:
                if isinstance(el.tag, str) and el.get("TargetMode") is None and r.random() < rate:
                    el.set("TargetMode", "Internal")
                    ch = True
            if ch:
                blob = etree.tostring(root, xml_declaration=True, encoding="UTF-8", standalone=True)
        out.append((n, blob))
    return write_members(out)


def respell_targets(data: bytes, style: str = "mixed", seed: int = 0) -> bytes:
    """Equivalent spellings of internal relationship targets (RFC 3986 references that resolve to the same part): root-absolute
    ("/ppt/media/image1.png"), "./x", "dir/../x".  python-pptx itself always writes the shortest relative form."""
    r = random.Random(seed)
    out = []
    for n, blob in read_members(data):
        pn = "/" + n
        if refpkg._is_rels_item(pn):
            src = refpkg._source_of_rels_item(pn)
            root = refpkg.parse(blob)
            ch = False
            for el in root:
                if not isinstance(el.tag, str) or el.get("TargetMode") == "External":
                    continue
                t = el.get("Target")
                tgt = refpkg.resolve(src, t)
                st = style if style != "mixed" else r.choice(["abs", "dot", "updown", "keep", "keep"])
                if st == "abs":
                    new_t = tgt
                elif st == "dot":
                    new_t = "./" + relref(src, tgt) if src != "/" else relref(src, tgt)
                elif st == "updown":
                    rel = relref(src, tgt)
                    new_t = ("zz/../" + rel) if not rel.startswith("..") else rel
                else:
                    new_t = t
                if new_t != t and refpkg.resolve(src, new_t) == tgt:
                    el.set("Target", new_t)
                    ch = True
            if ch:
                blob = etree.tostring(root, xml_declaration=True, encoding="UTF-8", standalone=True)
        out.append((n, blob))
    return write_members(out)


def respell_package_xml(data: bytes, style: str = "mixed", seed: int = 0) -> bytes:
    """The package's own XML items (.rels items, [Content_Types].xml) in equivalent XML spellings: a namespace prefix instead of the
    default namespace, one attribute per line (line feed / tab right after the element name), UTF-16."""
    r = random.Random(seed)
    out = []
    for n, blob in read_members(data):
        pn = "/" + n
        if refpkg._is_rels_item(pn) or n == "[Content_Types].xml":
            st = style if style != "mixed" else r.choice(["prefixed", "multiline", "utf16", "keep"])
            if st != "keep":
                root = refpkg.parse(blob)
                ns = etree.QName(root).namespace
                if st == "utf16":
                    blob = etree.tostring(root, xml_declaration=True, encoding="UTF-16", standalone=True)
                else:
                    from xml.sax.saxutils import quoteattr
                    pfx = "pr:" if st == "prefixed" else ""
                    sep = " " if st == "prefixed" else "\n\t"
                    decl = ('xmlns:pr=%s' if st == "prefixed" else 'xmlns=%s') % quoteattr(ns)
                    parts = ["<?xml version='1.0' encoding='UTF-8' standalone='yes'?>\n<%s%s%s%s>" % (pfx, etree.QName(root).localname, sep, decl)]
                    for el in root:
                        if not isinstance(el.tag, str):
                            continue
                        attrs = sep.join("%s=%s" % (k, quoteattr(v)) for k, v in el.attrib.items())
                        parts.append("<%s%s%s%s/>" % (pfx, etree.QName(el).localname, sep, attrs))
                    parts.append("</%s%s>" % (pfx, etree.QName(root).localname))
                    blob = "\n".join(parts).encode("utf-8")
        out.append((n, blob))
    return write_members(out)


def big_blob(data: bytes, size: int = 4 * 1024 * 1024 + 1, seed: int = 0) -> bytes:
    """A large binary part (a video, an embedded database dump): a new part of `size` bytes related from the presentation part under a
    custom relationship type, typed by an Override.  python-pptx carries it as a generic part."""
    import hashlib
    members = read_members(data)
    names = {n for n, _ in members}
    k = 1
    while "ppt/customData/big%d.bin" % k in names:
        k += 1
    name = "ppt/customData/big%d.bin" % k
    block = hashlib.sha256(b"big-%d" % seed).digest()
    blob = (block * (size // len(block) + 1))[:size]
    out = []
    for n, b in members:
        if n == "ppt/_rels/presentation.xml.rels":
            root = refpkg.parse(b)
            used = {el.get("Id") for el in root if isinstance(el.tag, str)}
            i = 1
            while "rId%d" % i in used:
                i += 1
            el = etree.SubElement(root, "{%s}Relationship" % refpkg.NS_REL)
            el.set("Id", "rId%d" % i)
            el.set("Type", "urn:verif:large-binary")
            el.set("Target", "customData/big%d.bin" % k)
            b = etree.tostring(root, xml_declaration=True, encoding="UTF-8", standalone=True)
        elif n == "[Content_Types].xml":
            root = refpkg.parse(b)
            o = etree.SubElement(root, "{%s}Override" % refpkg.NS_CT)
            o.set("PartName", "/" + name)
            o.set("ContentType", "application/x-verif-large-binary")
            b = etree.tostring(root, xml_declaration=True, encoding="UTF-8", standalone=True)
        out.append((n, b))
    out.append((name, blob))
    return write_members(out)


def layout_logo(data: bytes, k: int = 0, seed: int = 0) -> bytes:
    """A template with a logo: a picture on slide layout number k (modulo), whose image part nothing else refers to."""
    from . import gens
    P = "{http://schemas.openxmlformats.org/presentationml/2006/main}"
    A = "{http://schemas.openxmlformats.org/drawingml/2006/main}"
    members = read_members(data)
    names = [n for n, _ in members]
    layouts = sorted((n for n in names if re.match(r"^ppt/slideLayouts/slideLayout\d+\.xml$", n)), key=lambda n: int(re.findall(r"\d+", n)[-1]))
    if not layouts:
        return data
    lay = layouts[k % len(layouts)]
    nums = [int(m.group(1)) for n in names for m in [re.match(r"^ppt/media/image(\d+)\.\w+$", n)] if m]
    img_name = "ppt/media/image%d.png" % (max(nums or [0]) + 1)
    img = gens.image_bytes({"fmt": "PNG", "w": 9, "h": 7, "seed": 7000 + seed, "mode": "RGB", "dpi": None})
    rels_name = lay.replace("slideLayouts/", "slideLayouts/_rels/") + ".rels"
    out = []
    rid = None
    for n, b in members:
        if n == rels_name:
            root = refpkg.parse(b)
            used = {el.get("Id") for el in root if isinstance(el.tag, str)}
            i = 1
            while "rId%d" % i in used:
                i += 1
            rid = "rId%d" % i
            el = etree.SubElement(root, "{%s}Relationship" % refpkg.NS_REL)
            el.set("Id", rid)
            el.set("Type", "http://schemas.openxmlformats.org/officeDocument/2006/relationships/image")
            el.set("Target", "../media/" + img_name.rpartition("/")[2])
            b = etree.tostring(root, xml_declaration=True, encoding="UTF-8", standalone=True)
        out.append((n, b))
    if rid is None:
        return data
    out2 = []
    for n, b in out:
        if n == lay:
            root = refpkg.parse(b)
            tree = root.find(P + "cSld/" + P + "spTree")
            ids = [int(v) for v in root.xpath("//@id") if str(v).isdigit()]
            pic = etree.fromstring(
                '<p:pic xmlns:p="%s" xmlns:a="%s" xmlns:r="%s"><p:nvPicPr><p:cNvPr id="%d" name="Logo"/><p:cNvPicPr/><p:nvPr userDrawn="1"/></p:nvPicPr>'
                '<p:blipFill><a:blip r:embed="%s"/><a:stretch><a:fillRect/></a:stretch></p:blipFill>'
                '<p:spPr><a:xfrm><a:off x="100000" y="100000"/><a:ext cx="300000" cy="200000"/></a:xfrm><a:prstGeom prst="rect"><a:avLst/></a:prstGeom></p:spPr></p:pic>'
                % (P[1:-1], A[1:-1], R_NS[1:-1], max(ids or [1]) + 1, rid))
            kids = [e for e in tree if isinstance(e.tag, str)]
            tree.insert(list(tree).index(kids[-1]) + 1 if len(kids) > 2 else len(tree), pic)
            if tree[-1].tag == P + "extLst" and tree[-1] is not pic:
                tree.remove(pic)
                tree[-1].addprevious(pic)
            b = etree.tostring(root, xml_declaration=True, encoding="UTF-8", standalone=True)
        elif n == "[Content_Types].xml":
            root = refpkg.parse(b)
            if not any(isinstance(e.tag, str) and (e.get("Extension") or "").lower() == "png" for e in root):
                d = etree.Element("{%s}Default" % refpkg.NS_CT)
                d.set("Extension", "png")
                d.set("ContentType", "image/png")
                root.insert(0, d)
                b = etree.tostring(root, xml_declaration=True, encoding="UTF-8", standalone=True)
        out2.append((n, b))
    out2.append((img_name, img))
    return write_members(out2)


def unlist_slide(data: bytes, k: int = 0) -> bytes:
    """A slide taken out of p:sldIdLst whose relationship and part stay behind (what several tools leave after "deleting" a slide):
    the listed slides' part names are then non-contiguous in presentation order."""
    P = "{http://schemas.openxmlformats.org/presentationml/2006/main}"
    out = []
    for n, b in read_members(data):
        if n == "ppt/presentation.xml":
            root = refpkg.parse(b)
            lst = root.find(P + "sldIdLst")
            els = [e for e in lst if isinstance(e.tag, str)] if lst is not None else []
            if els:
                lst.remove(els[k % len(els)])
                b = etree.tostring(root, xml_declaration=True, encoding="UTF-8", standalone=True)
        out.append((n, b))
    return write_members(out)


def drop_notes_master_rel(data: bytes) -> bytes:
    """A legal but unusual deck: notes slides (each related to the notes master) while the presentation part itself has
    neither the notesMaster relationship nor the p:notesMasterIdLst entry."""
    P = "{http://schemas.openxmlformats.org/presentationml/2006/main}"
    out = []
    rid = None
    members = read_members(data)
    for n, b in members:
        if n == "ppt/_rels/presentation.xml.rels":
            root = refpkg.parse(b)
            for el in list(root):
                if isinstance(el.tag, str) and (el.get("Type") or "").endswith("/notesMaster"):
                    rid = el.get("Id")
                    root.remove(el)
            b = etree.tostring(root, xml_declaration=True, encoding="UTF-8", standalone=True)
        out.append((n, b))
    out2 = []
    for n, b in out:
        if n == "ppt/presentation.xml" and rid is not None:
            root = refpkg.parse(b)
            lst = root.find(P + "notesMasterIdLst")
            if lst is not None:
                root.remove(lst)
            b = etree.tostring(root, xml_declaration=True, encoding="UTF-8", standalone=True)
        out2.append((n, b))
    return write_members(out2)


_SLIDE_MEMBER = re.compile(r"^ppt/slides/slide\d+\.xml$")


BOOL_ATTRS = {"hMerge", "vMerge", "firstRow", "firstCol", "lastRow", "lastCol", "bandRow", "bandCol", "b", "i", "noChangeAspect", "noGrp",
              "noSelect", "noRot", "noMove", "noResize", "userDrawn", "showMasterSp", "flipH", "flipV", "rotWithShape", "anchorCtr", "rtlCol",
              "fromWordArt", "upright", "compatLnSpc", "forceAA", "kumimoji", "noProof", "dirty", "err", "smtClean", "hasCustomPrompt", "txBox",
              "rtl", "eaLnBrk", "latinLnBrk", "hangingPunct", "showMasterPhAnim"}
CHART_BOOL_ELEMENTS = {"autoTitleDeleted", "varyColors", "smooth", "invertIfNegative", "delete", "showLegendKey", "showVal", "showCatName",
                       "showSerName", "showPercent", "showBubbleSize", "overlay", "plotVisOnly", "date1904", "roundedCorners", "auto",
                       "noMultiLvlLbl", "bubble3D", "showNegBubbles", "showLeaderLines", "marker", "showDLblsOverMax", "autoUpdate"}
_CHART_MEMBER = re.compile(r"^ppt/charts/chart\d+\.xml$")


def rewrite_charts(data: bytes, how: str, seed: int = 0) -> bytes:
    """Chart parts as PowerPoint leaves them after edits python-pptx never makes:
    reverse_idx - c:idx / c:order values handed out in reverse document order (a series moved to another plot keeps its number, so an
                  EARLIER plot can hold the highest index)
    date1904    - the chart (c:date1904) and its embedded workbook (workbookPr/@date1904) use the 1904 date system
    """
    C_ = "{http://schemas.openxmlformats.org/drawingml/2006/chart}"
    import io
    import zipfile
    out = []
    flip_wb = set()
    members = read_members(data)
    if how == "date1904":
        # embedded workbooks of the charts
        for n, b in members:
            if re.match(r"^ppt/charts/_rels/chart\d+\.xml\.rels$", n):
                root = refpkg.parse(b)
                for el in root:
                    if isinstance(el.tag, str) and (el.get("Type") or "").endswith("/package"):
                        flip_wb.add(refpkg.resolve("/" + n.replace("_rels/", "").replace(".rels", ""), el.get("Target"))[1:])
    for n, b in members:
        if _CHART_MEMBER.match(n):
            root = refpkg.parse(b)
            changed = False
            if how == "reverse_idx":
                sers = list(root.iter(C_ + "ser"))
                idxs = [s_.find(C_ + "idx") for s_ in sers]
                ords = [s_.find(C_ + "order") for s_ in sers]
                if len(sers) >= 2 and all(e is not None for e in idxs + ords):
                    vals = [e.get("val") for e in idxs]
                    for e, v in zip(idxs, reversed(vals)):
                        e.set("val", v)
                    vals = [e.get("val") for e in ords]
                    for e, v in zip(ords, reversed(vals)):
                        e.set("val", v)
                    changed = True
            elif how == "shift_order":
                # c:order numbered from 1 (or higher) while c:idx starts at 0: both stay unique
                ords = [s_.find(C_ + "order") for s_ in root.iter(C_ + "ser")]
                if ords and all(e is not None and (e.get("val") or "").isdigit() for e in ords):
                    for e in ords:
                        e.set("val", str(int(e.get("val")) + 1 + seed % 3))
                    changed = True
            elif how == "reverse_repeated":
                # lists whose members may come in any order (c:dLbl in c:dLbls, c:dPt in c:ser) stored in reverse
                for par in list(root.iter(C_ + "dLbls")) + list(root.iter(C_ + "ser")):
                    for tag in (C_ + "dLbl", C_ + "dPt"):
                        kids = [e for e in par if e.tag == tag]
                        if len(kids) >= 2:
                            pos = [list(par).index(e) for e in kids]
                            for e in kids:
                                par.remove(e)
                            for p_, e in zip(pos, reversed(kids)):
                                par.insert(p_, e)
                            changed = True
            elif how == "optional_children":
                # c:dLbls carrying shape properties (PowerPoint 2013+ writes them) and no number format
                A_ = "{http://schemas.openxmlformats.org/drawingml/2006/main}"
                for dl in root.iter(C_ + "dLbls"):
                    if dl.find(C_ + "spPr") is None and dl.find(C_ + "delete") is None:
                        sp = etree.Element(C_ + "spPr")
                        etree.SubElement(sp, A_ + "noFill")
                        after = [e for e in dl if isinstance(e.tag, str) and etree.QName(e).localname in ("dLbl", "numFmt")]
                        if after:
                            after[-1].addnext(sp)
                        else:
                            dl.insert(0, sp)
                        changed = True
            elif how == "date1904":
                d = root.find(C_ + "date1904")
                if d is None:
                    d = etree.Element(C_ + "date1904")
                    root.insert(0, d)
                d.set("val", "1")
                changed = True
            if changed:
                b = etree.tostring(root, xml_declaration=True, encoding="UTF-8", standalone=True)
        elif n in flip_wb:
            try:
                zin = zipfile.ZipFile(io.BytesIO(b))
                buf = io.BytesIO()
                with zipfile.ZipFile(buf, "w", zipfile.ZIP_DEFLATED) as zout:
                    for info in zin.infolist():
                        mb = zin.read(info.filename)
                        if info.filename == "xl/workbook.xml":
                            t = mb.decode("utf-8")
                            if "date1904" not in t:
                                t = t.replace("<workbookPr", '<workbookPr date1904="1"', 1) if "<workbookPr" in t else t.replace("<sheets", '<workbookPr date1904="1"/><sheets', 1)
                            mb = t.encode("utf-8")
                        zout.writestr(zipfile.ZipInfo(info.filename, date_time=(1980, 1, 1, 0, 0, 0)), mb)
                b = buf.getvalue()
            except Exception:  # noqa: BLE001
                pass
        out.append((n, b))
    return write_members(out)


def rewrite_slides(data: bytes, how: str) -> bytes:
    """What another producer might legally write for the same slides (and charts):
    strip_tblPr       - a:tbl without its optional a:tblPr child
    strip_cell_txBody - empty table cells without their optional a:txBody child
    bool_words        - xsd:boolean values spelled true / false instead of 1 / 0 (attributes of slide parts, c:* val of chart parts)
    """
    A = "{http://schemas.openxmlformats.org/drawingml/2006/main}"
    C_ = "{http://schemas.openxmlformats.org/drawingml/2006/chart}"
    out = []
    for n, b in read_members(data):
        if how == "bool_words" and _CHART_MEMBER.match(n):
            root = refpkg.parse(b)
            changed = False
            for el in root.iter():
                if isinstance(el.tag, str) and el.tag.startswith(C_) and etree.QName(el).localname in CHART_BOOL_ELEMENTS and el.get("val") in ("0", "1") and len(el) == 0:
                    el.set("val", "true" if el.get("val") == "1" else "false")
                    changed = True
            if changed:
                b = etree.tostring(root, xml_declaration=True, encoding="UTF-8", standalone=True)
        if _SLIDE_MEMBER.match(n):
            root = refpkg.parse(b)
            changed = False
            if how == "bool_words":
                for el in root.iter():
                    if not isinstance(el.tag, str):
                        continue
                    for k, v in list(el.attrib.items()):
                        if k in BOOL_ATTRS and v in ("0", "1"):
                            el.set(k, "true" if v == "1" else "false")
                            changed = True
            if how == "hover_links":
                # another program gave every click action a hover action on the same relationship (a:hlinkHover in cNvPr,
                # a:hlinkMouseOver in run properties): a second element of the part now refers to that relationship id
                for hc in list(root.iter(A + "hlinkClick")):
                    rid = hc.get(R_NS + "id")
                    par = hc.getparent()
                    if not rid or par is None:
                        continue
                    tag = A + ("hlinkHover" if etree.QName(par).localname == "cNvPr" else "hlinkMouseOver")
                    if par.find(tag) is None:
                        h = etree.Element(tag)
                        h.set(R_NS + "id", rid)
                        if hc.get("action"):
                            h.set("action", hc.get("action"))
                        hc.addnext(h)
                        changed = True
            if how == "optional_children":
                # optional children python-pptx never writes but other producers do: a custom dash on every outline that has no dash yet
                for ln in root.iter(A + "ln"):
                    if ln.find(A + "prstDash") is None and ln.find(A + "custDash") is None:
                        cd_ = etree.Element(A + "custDash")
                        ds = etree.SubElement(cd_, A + "ds")
                        ds.set("d", "300000")
                        ds.set("sp", "100000")
                        fills = [e for e in ln if isinstance(e.tag, str) and etree.QName(e).localname in ("noFill", "solidFill", "gradFill", "pattFill")]
                        if fills:
                            fills[-1].addnext(cd_)
                        else:
                            ln.insert(0, cd_)
                        changed = True
            if how == "strip_cell_txBody":
                for tc in root.iter(A + "tc"):
                    tb = tc.find(A + "txBody")
                    if tb is not None and "".join(tb.itertext()) == "" and not any(True for _ in tb.iter(A + "br")) and len(tb.findall(A + "p")) <= 1:
                        tc.remove(tb)
                        changed = True
            if how == "strip_tblPr":
                for tbl in root.iter(A + "tbl"):
                    pr = tbl.find(A + "tblPr")
                    if pr is not None:
                        tbl.remove(pr)
                        changed = True
            if changed:
                b = etree.tostring(root, xml_declaration=True, encoding="UTF-8", standalone=True)
        out.append((n, b))
    return write_members(out)


# content types other producers declare for what python-pptx itself would declare otherwise: "image/jpg" is the one alias the library
# documents (case variants such as "image/PNG" are loaded as generic parts by the unchanged library - the self-check tools/xformcheck.py
# shows the snapshot changes - so they are not an equivalent spelling for this code base and are not generated)
TYPE_ALIASES = {"image/jpeg": ["image/jpg"]}


def alias_types(data: bytes, seed: int = 0, only=("image/jpeg",)) -> bytes:
    """[Content_Types].xml as written by a producer that declares image types by an alias (JPEG parts as "image/jpg")."""
    r = random.Random(seed)
    out = []
    for n, blob in read_members(data):
        if n == "[Content_Types].xml":
            root = refpkg.parse(blob)
            for el in root:
                if isinstance(el.tag, str) and el.get("ContentType") in only:
                    el.set("ContentType", r.choice(TYPE_ALIASES[el.get("ContentType")]))
            blob = etree.tostring(root, xml_declaration=True, encoding="UTF-8", standalone=True)
        out.append((n, blob))
    return write_members(out)


def apply(data: bytes, x: dict) -> bytes:
    kind = x["kind"]
    if kind == "alias_types":
        return alias_types(data, x.get("seed", 0), tuple(x.get("only", ("image/jpeg",))))
    if kind == "rewrite_charts":
        return rewrite_charts(data, x.get("how", "reverse_idx"), x.get("seed", 0))
    if kind == "rewrite_slides":
        return rewrite_slides(data, x.get("how", "strip_tblPr"))
    if kind == "drop_notes_master_rel":
        return drop_notes_master_rel(data)
    if kind == "respell_package_xml":
        return respell_package_xml(data, x.get("style", "mixed"), x.get("seed", 0))
    if kind == "big_blob":
        return big_blob(data, x.get("size", 4 * 1024 * 1024 + 1), x.get("seed", 0))
    if kind == "layout_logo":
        return layout_logo(data, x.get("k", 0), x.get("seed", 0))
    if kind == "respell_targets":
        return respell_targets(data, x.get("style", "mixed"), x.get("seed", 0))
    if kind == "unlist_slide":
        return unlist_slide(data, x.get("k", 0))
    if kind == "explicit_internal":
        return explicit_internal(data, x.get("rate", 1.0), x.get("seed", 0))
    if kind == "respell_rids":
        return respell_rids(data, x.get("style", "mixed"), x.get("seed", 0))
    if kind == "renumber":
        return renumber(data, x["family"], x.get("mode", "odd"), x.get("seed", 0))
    if kind == "rename_slides":
        return rename_slides(data, x.get("mode", "reverse"), x.get("seed", 0))
    if kind == "ids":
        from . import idmutate
        return idmutate.apply(data, x)
    if kind == "c16":
        from .props import c16
        return c16.apply_fault(data, x)
    if kind == "core_xml":
        from .props import c18
        return c18.apply_core_xform(data, x)
    if kind == "layout_mutate":
        from . import layoutmutate
        return layoutmutate.apply(data, x)
    raise ValueError("unknown xform %r" % kind)
