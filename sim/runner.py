"""Parallel seeded runs, determinism self-test, minimisation, replay files, evidence."""
from __future__ import annotations

import collections
import concurrent.futures as cf
import faulthandler
import hashlib
import importlib
import json
import multiprocessing
import os
import subprocess
import sys

from . import findings, seams
from .engine import execute, jdump
from .rng import derive

VERIF = os.path.dirname(os.path.dirname(os.path.abspath(__file__)))
RUN_TIMEOUT_S = 300


def load_prop(pid: str):
    return importlib.import_module("sim.props.%s" % pid.lower())


def run_seed(verif_seed: int, pid: str, tier: str, idx: int) -> int:
    return derive(verif_seed, pid, tier, idx)


def make_trace(mod, verif_seed, pid, tier, idx):
    """Trace for run index `idx`: an enumerating property may map indices to cases itself."""
    if hasattr(mod, "index_trace"):
        t = mod.index_trace(idx, tier, verif_seed)
        if t is not None:
            return t
    seed = run_seed(verif_seed, pid, tier, idx)
    t = mod.gen_trace(seed, tier)
    if isinstance(t.get("config"), dict) and "tz" not in t["config"]:
        # the process time zone is part of every run's simulated environment (POSIX rule strings: east, west, with and without DST)
        from .rng import Streams
        t["config"]["tz"] = Streams(seed)("tz").choice(TZ_POOL)
    return t


TZ_POOL = ["UTC", "UTC", "UTC", "JST-9", "HST10", "CET-1CEST,M3.5.0,M10.5.0/3", "EST5EDT,M3.2.0,M11.1.0", "IST-5:30",
           "NZST-12NZDT,M9.5.0,M4.1.0/3", "<+14>-14", "<-12>12"]


# ---- worker ---------------------------------------------------------------------------------------

def _exec_one(pid: str, trace: dict, collect_log=False) -> dict:
    mod = load_prop(pid)
    known = findings.known_for(pid)
    faulthandler.dump_traceback_later(RUN_TIMEOUT_S, exit=True)
    try:
        if hasattr(mod, "execute"):
            return mod.execute(trace, known, collect_log)
        return execute(trace, mod.make_oracles(trace), known, collect_log)
    finally:
        faulthandler.cancel_dump_traceback_later()


def _exec_trace(pid: str, trace: dict, collect_log=False) -> dict:
    """Execute a trace in THIS process.  A *session* ({"session": [trace, ...]}) executes its members in order in one
    process (several documents in one process: module- or class-level state of the code under test carries over); the
    verdict is that of the last member."""
    if "session" not in trace:
        return _exec_one(pid, trace, collect_log)
    digests = []
    res = None
    known = {}
    for t in trace["session"]:
        res = _exec_one(pid, t, collect_log)
        digests.append(res["digest"])
        for k, n in res["known_hits"].items():
            known[k] = known.get(k, 0) + n
        if res["error"]:
            break
    res = dict(res)
    res["digest"] = hashlib.sha256("".join(digests).encode()).hexdigest()
    res["known_hits"] = known
    return res


def _in_child(fn, *args):
    """Run fn(*args) in a forked child and return its result: the child starts from this process's state and whatever it
    does to module-level state of the code under test dies with it."""
    import pickle
    import traceback
    r, w_ = os.pipe()
    cpid = os.fork()
    if cpid == 0:
        code = 0
        try:
            os.close(r)
            try:
                data = pickle.dumps(("ok", fn(*args)))
            except BaseException:  # noqa: BLE001
                data = pickle.dumps(("err", traceback.format_exc()))
            with os.fdopen(w_, "wb") as f:
                f.write(data)
            from .disk import cleanup_scratch
            cleanup_scratch()
        except BaseException:  # noqa: BLE001
            code = 3
        finally:
            os._exit(code)
    os.close(w_)
    with os.fdopen(r, "rb") as f:
        data = f.read()
    os.waitpid(cpid, 0)
    if not data:
        raise RuntimeError("child process died (timeout or crash)")
    tag, out = pickle.loads(data)
    if tag == "err":
        raise RuntimeError("child raised:\n" + out)
    return out


def _exec_isolated(pid: str, trace: dict, collect_log=False) -> dict:
    return _in_child(_exec_trace, pid, trace, collect_log)


def _chunk_traces(mod, pid, tier, verif_seed, idxs, pinned):
    if pinned:
        allp = mod.pinned_traces(tier)
        return [allp[i] for i in idxs]
    return [make_trace(mod, verif_seed, pid, tier, i) for i in idxs]


def _work(args):
    """One chunk = one process history: the chunk's traces run one after another in a forked child."""
    return _in_child(_work_inner, args)


def _work_inner(args):
    pid, tier, verif_seed, idxs, pinned = args
    mod = load_prop(pid)
    out = []
    traces = _chunk_traces(mod, pid, tier, verif_seed, idxs, pinned)
    for pos, (idx, trace) in enumerate(zip(idxs, traces)):
        res = _exec_one(pid, trace)
        item = {
            "idx": idx, "pinned": pinned, "digest": res["digest"], "error": res["error"],
            "violation": res["violation"], "faults": res["faults"], "probes": res["probes"],
            "stats": res["stats"], "known_hits": res["known_hits"], "n_events": res["n_events"],
            "sim_seconds": res["sim_seconds"], "clock_jumps": res["clock_jumps"],
            "clock_back_jumps": res.get("clock_back_jumps", 0),
            "outcomes": dict(collections.Counter(o.split(":")[0] for o in res["outcomes"])),
            "states": res["states"],
            "nontrivial": bool(mod.nontrivial(trace, res)),
            "bigrams": _bigrams(trace, res),
            "chunk": [list(idxs), pinned], "pos": pos,
        }
        if res["violation"] or res["error"]:
            item["trace"] = trace
        elif idx < 3:
            item["sample"] = _abbrev(trace, res)
        out.append(item)
    return out


def _bigrams(trace, res):
    ops = [e["op"] for e, o in zip(trace["events"], res["outcomes"]) if not o.startswith("skip")]
    return sorted(set(zip(ops, ops[1:])))[:400]


def _abbrev(trace, res):
    evs = []
    for e, o in list(zip(trace["events"], res["outcomes"]))[:12]:
        d = {k: v for k, v in e.items() if k in ("op", "slide", "shape", "sink", "fault", "type", "what", "prop", "held", "deck", "form")}
        d["outcome"] = o
        evs.append(d)
    return {"seed": trace.get("seed"), "start": trace.get("start"), "config": trace.get("config"),
            "n_events": len(trace["events"]), "first_events": evs}


def _pool(workers: int):
    ctx = multiprocessing.get_context("fork")
    return cf.ProcessPoolExecutor(max_workers=workers, mp_context=ctx)


# ---- minimisation -------------------------------------------------------------------------------------

def _fails_same(pool, pid, traces, sig):
    """Evaluate candidate traces in parallel; return index of first candidate (in order) that
    fails with the same signature, else None."""
    futs = [pool.submit(_exec_isolated, pid, t) for t in traces]
    hit = None
    for i, f in enumerate(futs):
        try:
            r = f.result(timeout=RUN_TIMEOUT_S * 2)
        except Exception:  # noqa: BLE001
            continue
        if hit is None and r["violation"] and r["violation"]["sig"] == sig and not r["error"]:
            hit = i
    return hit


def minimise(pool, pid: str, trace: dict, sig: str, budget_evals=1500) -> dict:
    evs = list(trace["events"])
    # everything after the violating event is irrelevant
    n = 2
    evals = 0
    while len(evs) >= 2 and evals < budget_evals:
        chunk = max(1, len(evs) // n)
        cands = []
        for i in range(0, len(evs), chunk):
            c = evs[:i] + evs[i + chunk:]
            if c != evs:
                cands.append(c)
        evals += len(cands)
        hit = _fails_same(pool, pid, [dict(trace, events=c) for c in cands], sig)
        if hit is not None:
            evs = cands[hit]
            n = max(n - 1, 2)
        else:
            if chunk == 1:
                break
            n = min(n * 2, len(evs))
    trace = dict(trace, events=evs)
    # property-specific shrinking of the stored-state recipe (generated packages, fault lists): greedy, first improvement
    mod = load_prop(pid)
    if hasattr(mod, "shrink_candidates"):
        rounds = 0
        while rounds < 60 and evals < budget_evals:
            cands = mod.shrink_candidates(trace)
            if not cands:
                break
            evals += len(cands)
            hit = _fails_same(pool, pid, cands, sig)
            if hit is None:
                break
            trace = cands[hit]
            rounds += 1
    # simplifications
    simp = []
    start = trace.get("start", [{"deck": "default"}])
    if any(s.get("deck", "default") != "default" or s.get("xform") or s.get("form") for s in start):
        simp.append(dict(trace, start=[{"deck": "default"}]))
        simp.append(dict(trace, start=[{k: v for k, v in s.items() if k in ("deck",)} for s in start]))
        simp.append(dict(trace, start=[{k: v for k, v in s.items() if k not in ("form", "pos")} for s in start]))
    for t in simp:
        if _fails_same(pool, pid, [t], sig) is not None:
            trace = t
            break
    for key in ("held", "turbo", "group", "dt", "fault", "actor", "form", "pos"):
        evs2 = [{k: v for k, v in e.items() if k != key} for e in trace["events"]]
        if evs2 != trace["events"]:
            t = dict(trace, events=evs2)
            if _fails_same(pool, pid, [t], sig) is not None:
                trace = t
    for key, val in (("sink", "seekable"),):
        evs2 = [dict(e, **{key: val}) if key in e else e for e in trace["events"]]
        if evs2 != trace["events"]:
            t = dict(trace, events=evs2)
            if _fails_same(pool, pid, [t], sig) is not None:
                trace = t
    return trace


# ---- replay ----------------------------------------------------------------------------------------------

def sig_hash(sig: str) -> str:
    return hashlib.sha1(sig.encode()).hexdigest()[:10]


def write_replay(pid: str, trace: dict, violation: dict, digest: str) -> str:
    d = os.path.join(os.environ.get("VERIF_REPLAY_DIR") or os.path.join(VERIF, "replays"), pid)
    os.makedirs(d, exist_ok=True)
    p = os.path.join(d, "%s-%s.json" % (sig_hash(violation["sig"]), trace.get("seed", 0)))
    doc = dict(trace)
    doc["property"] = pid
    doc["violation"] = violation
    doc["digest"] = digest
    with open(p, "w") as f:
        json.dump(doc, f, indent=1, sort_keys=True)
    return p


def replay_file(pid: str, path: str) -> int:
    with open(path) as f:
        trace = json.load(f)
    res = _exec_trace(pid, trace, collect_log=True)
    if res["error"]:
        print("HARNESS-ERROR during replay: %s" % res["error"])
        return 2
    for k, n in sorted(res["known_hits"].items()):
        print("KNOWN-FINDING: property=%s %s (hit %d times in replay)" % (pid, k, n))
    v = res["violation"]
    if v:
        print("signature: %s" % v["sig"])
        print("clause: %s" % v.get("clause", ""))
        print("at event %s of %d" % (v["event_index"], res["n_events"]))
        print("detail: %s" % v["detail"][:2000])
        print("digest: %s" % res["digest"])
        print("VIOLATION property=%s replay=%s" % (pid, path))
        return 1
    print("replay: no violation (digest %s)" % res["digest"])
    return 0


def fresh_replay(pid: str, path: str):
    """Replay in a fresh interpreter; returns (exit_code, signature or None, digest or None)."""
    env = dict(os.environ, PYTHONHASHSEED="4242")
    p = subprocess.run([sys.executable, os.path.join(VERIF, "sim", "main.py"), pid, "--replay", path],
                       capture_output=True, text=True, env=env, timeout=600)
    sig = dig = None
    for line in p.stdout.splitlines():
        if line.startswith("signature: "):
            sig = line[len("signature: "):]
        if line.startswith("digest: "):
            dig = line[len("digest: "):]
    return p.returncode, sig, dig


def _report_isolated(pool, pid, tier, first, sig):
    """Minimise the violating trace on its own and confirm it in a fresh interpreter."""
    trace = first["trace"]
    cut = dict(trace, events=trace["events"][: first["violation"]["event_index"] + 1]) \
        if first["violation"]["event_index"] < len(trace["events"]) else trace
    chk = _exec_isolated(pid, cut)
    if not (chk["violation"] and chk["violation"]["sig"] == sig):
        cut = trace
        chk = _exec_isolated(pid, cut)
        if not (chk["violation"] and chk["violation"]["sig"] == sig):
            return False, "the trace does not fail when executed alone in a fresh process", None
    small = minimise(pool, pid, cut, sig, budget_evals=600 if tier == "quick" else 3000)
    final = _exec_isolated(pid, small)
    if not (final["violation"] and final["violation"]["sig"] == sig):
        return False, "minimised trace does not fail", None
    path = write_replay(pid, small, final["violation"], final["digest"])
    code, fsig, fdig = fresh_replay(pid, path)
    if code == 1 and fsig == sig and fdig == final["digest"]:
        return True, "", (path, final["violation"])
    return False, "%s did not replay in a fresh interpreter (exit %s sig %r)" % (path, code, fsig), None


def _report_session(pool, mod, pid, tier, verif_seed, first, sig):
    """The failure needs the history of the process: replay the chunk's earlier traces before it (a session), minimise the
    list of predecessors, confirm in a fresh interpreter."""
    idxs, pinned = first["chunk"]
    prior = _chunk_traces(mod, pid, tier, verif_seed, idxs[: first["pos"]], pinned)
    if not prior:
        return False, "no earlier trace in the same process", None
    last = first["trace"]

    def fails(pr):
        r = _exec_isolated(pid, {"property": pid, "session": pr + [last]})
        return bool(r["violation"] and r["violation"]["sig"] == sig and not r["error"]), r
    ok, r = fails(prior)
    if not ok:
        return False, "does not fail as a session of %d traces either" % (len(prior) + 1), None
    # ddmin over the predecessors
    n = 2
    while len(prior) >= 1:
        size = max(1, len(prior) // n)
        reduced = False
        for i in range(0, len(prior), size):
            cand = prior[:i] + prior[i + size:]
            if fails(cand)[0]:
                prior = cand
                n = max(n - 1, 2)
                reduced = True
                break
        if not reduced:
            if size == 1:
                break
            n = min(n * 2, len(prior))
    ok, r = fails(prior)
    doc = {"property": pid, "seed": "session-%s" % last.get("seed"), "session": prior + [last],
           "note": "several documents in one process: the members are executed in order, the verdict is the last one's"}
    path = write_replay(pid, doc, r["violation"], r["digest"])
    code, fsig, fdig = fresh_replay(pid, path)
    if code == 1 and fsig == sig and fdig == r["digest"]:
        return True, "", (path, r["violation"])
    return False, "session %s did not replay in a fresh interpreter (exit %s sig %r)" % (path, code, fsig), None


# ---- main driver ---------------------------------------------------------------------------------------------

def run_check(pid: str, tier: str, verif_seed: int, workers: int = 0) -> int:
    mod = load_prop(pid)
    t0 = seams.real_time()
    workers = workers or min(16, os.cpu_count() or 4)
    plan = mod.plan(tier)
    n_runs = plan["runs"]
    budget = plan.get("budget_s", 90 if tier == "quick" else 900)
    chunk = plan.get("chunk", 4)
    n_pinned = len(mod.pinned_traces(tier)) if hasattr(mod, "pinned_traces") else 0

    print("check %s tier=%s VERIF_SEED=%d runs=%d pinned=%d workers=%d" % (pid, tier, verif_seed, n_runs, n_pinned, workers))
    sys.stdout.flush()
    items = []
    harness_errors = []
    stopped_early = False
    tasks = [(pid, tier, verif_seed, list(range(i, min(i + chunk, n_pinned))), True) for i in range(0, n_pinned, chunk)]
    tasks += [(pid, tier, verif_seed, list(range(i, min(i + chunk, n_runs))), False) for i in range(0, n_runs, chunk)]
    with _pool(workers) as pool:
        pending = set()
        it = iter(tasks)
        try:
            while True:
                while len(pending) < workers * 2:
                    if seams.real_time() - t0 > budget:
                        stopped_early = True
                        break
                    t = next(it, None)
                    if t is None:
                        break
                    pending.add(pool.submit(_work, t))
                if not pending:
                    break
                done, pending = cf.wait(pending, return_when=cf.FIRST_COMPLETED, timeout=RUN_TIMEOUT_S * 3)
                if not done:
                    harness_errors.append("worker timeout")
                    break
                for f in done:
                    items.extend(f.result())
        except cf.process.BrokenProcessPool as e:
            harness_errors.append("worker died (timeout or crash): %s" % e)

        items.sort(key=lambda x: (not x["pinned"], x["idx"]))
        for it_ in items:
            if it_["error"]:
                harness_errors.append("run %s%d: %s" % ("P" if it_["pinned"] else "", it_["idx"], it_["error"]))

        # ---- violations: group by signature, minimise first of each, confirm in fresh interpreter
        viol_by_sig = collections.OrderedDict()
        for it_ in items:
            if it_["violation"]:
                viol_by_sig.setdefault(it_["violation"]["sig"], []).append(it_)
        reported = []
        if not harness_errors or viol_by_sig:
            for sig, lst in list(viol_by_sig.items())[:5]:
                first = min(lst, key=lambda x: x["n_events"])
                ok = False
                why = ""
                try:
                    ok, why, rep = _report_isolated(pool, pid, tier, first, sig)
                    if not ok:
                        ok2, why2, rep = _report_session(pool, mod, pid, tier, verif_seed, first, sig)
                        ok, why = ok2, why + " / " + why2
                except Exception as e:  # noqa: BLE001
                    harness_errors.append("minimisation failed: %r" % e)
                    continue
                if ok:
                    reported.append((sig, rep[0], len(lst), rep[1]))
                else:
                    harness_errors.append("HARNESS-NONDETERMINISM: %s: %s" % (sig, why))

    # ---- determinism self-test (quick: 6 seeds; thorough: 24): same trace twice in-process +
    #      fresh interpreter under another PYTHONHASHSEED
    det = determinism_selftest(pid, tier, verif_seed, 6 if tier == "quick" else 24, items)
    if det["mismatches"]:
        harness_errors.append("determinism self-test mismatches: %s" % det["mismatches"][:3])

    wall = seams.real_time() - t0
    write_evidence(pid, mod, tier, verif_seed, items, reported, harness_errors, det, wall, stopped_early, plan)

    known_total = collections.Counter()
    for it_ in items:
        for k, n in it_["known_hits"].items():
            known_total[k] += n
    for k, n in sorted(known_total.items()):
        print("KNOWN-FINDING: property=%s %s (seen %d times)" % (pid, k, n))
    for sig, path, n, v in reported:
        print("violation signature: %s" % sig)
        print("  clause: %s" % v.get("clause", ""))
        print("  detail: %s" % v["detail"][:600].replace("\n", "\n    "))
        print("  runs hitting it: %d" % n)
        print("VIOLATION property=%s replay=%s" % (pid, path))
    nruns = len(items)
    print("%s: %d runs (%d pinned), %d violations signatures, %d harness errors, %.1fs, %.0f runs/h"
          % (pid, nruns, sum(1 for i in items if i["pinned"]), len(reported), len(harness_errors), wall,
             nruns / max(wall, 1e-9) * 3600))
    for e in harness_errors[:10]:
        print("HARNESS-ERROR: %s" % e)
    if reported:
        return 1
    if harness_errors:
        return 2
    return 0


def determinism_selftest(pid, tier, verif_seed, n, items):
    mod = load_prop(pid)
    base = {i["idx"]: i["digest"] for i in items if not i["pinned"]}
    idxs = [i for i in range(n) if i in base]
    mism = []
    # in-process re-run
    for idx in idxs:
        trace = make_trace(mod, verif_seed, pid, tier, idx)
        r = _exec_isolated(pid, trace)
        if r["digest"] != base[idx]:
            mism.append(("re-run", idx))
    # fresh interpreter under a different hash seed
    env = dict(os.environ, PYTHONHASHSEED="987654")
    try:
        p = subprocess.run([sys.executable, os.path.join(VERIF, "sim", "main.py"), pid, "--digests",
                            ",".join(map(str, idxs)), "--tier", tier, "--seed", str(verif_seed)],
                           capture_output=True, text=True, env=env, timeout=900)
        got = json.loads(p.stdout.strip().splitlines()[-1]) if p.returncode == 0 and p.stdout.strip() else None
    except Exception as e:  # noqa: BLE001
        got = None
        mism.append(("fresh-failed", repr(e)))
    if got is None:
        mism.append(("fresh-no-output", p.stderr[-500:] if 'p' in dir() else ""))
    else:
        for idx in idxs:
            if got.get(str(idx)) != base[idx]:
                mism.append(("fresh", idx))
    return {"seeds_checked": len(idxs), "mismatches": mism, "modes": ["re-run alone in a forked child", "fresh interpreter PYTHONHASHSEED=987654"]}


def print_digests(pid, tier, verif_seed, idxs):
    mod = load_prop(pid)
    out = {}
    for idx in idxs:
        trace = make_trace(mod, verif_seed, pid, tier, idx)
        out[str(idx)] = _exec_trace(pid, trace)["digest"]
    print(json.dumps(out))


# ---- evidence -------------------------------------------------------------------------------------------------------

def write_evidence(pid, mod, tier, verif_seed, items, reported, harness_errors, det, wall, stopped_early, plan):
    agg = lambda key: _sum_counters(i[key] for i in items)  # noqa: E731
    digests = set()
    nontrivial = set()
    for i in items:
        digests.add(i["digest"])
        if i["nontrivial"]:
            nontrivial.add(i["digest"])
    states = set()
    bigrams = set()
    for i in items:
        states.update(i["states"])
        bigrams.update(tuple(b) for b in i["bigrams"])
    samples = [i["sample"] for i in items if "sample" in i and i["pinned"]][:1] + \
        [i["sample"] for i in items if "sample" in i and not i["pinned"]][:2]
    if not samples:
        samples = [{"note": "no sample recorded", "runs": len(items)}]
    known = collections.Counter()
    for i in items:
        for k, n in i["known_hits"].items():
            known[k] += n
    cov = {
        "evaluations": len(items),
        "distinct_nontrivial": len(nontrivial),
        "rule": mod.RULE,
        "samples": samples,
        "pinned_traces": sum(1 for i in items if i["pinned"]),
        "events_executed": sum(i["n_events"] for i in items),
        "runs_per_hour": round(len(items) / max(wall, 1e-9) * 3600),
        "seeds": {"VERIF_SEED": verif_seed, "run_seed": "sha256(VERIF_SEED/property/tier/index)[:8]",
                  "indices": [0, plan["runs"]]},
        "simulated_seconds": round(sum(i["sim_seconds"] for i in items), 1),
        "clock_jumps": sum(i["clock_jumps"] for i in items),
        "clock_backward_jumps": sum(i.get("clock_back_jumps", 0) for i in items),
        "faults_fired": agg("faults"),
        "probes": agg("probes"),
        "outcome_classes": agg("outcomes"),
        "stats": agg("stats"),
        "distinct_trace_digests": len(digests),
        "distinct_abstract_states": len(states),
        "distinct_op_bigrams": len(bigrams),
        "known_findings_hit": dict(known),
        "violation_signatures": [r[0] for r in reported],
        "harness_errors": harness_errors[:10],
        "determinism_selftest": det,
        "stopped_early_on_wall_budget": stopped_early,
        "components": getattr(mod, "COMPONENTS", {
            "real": ["python-pptx (all of src/pptx from /repo)", "lxml", "zipfile/zlib", "Pillow", "XlsxWriter"],
            "stub": ["storage: SimDisk/SimSource/SimSink (+ tmpfs scratch for path forms)", "clock: SimClock",
                     "PRNG", "generated input files"]}),
        "exhaustive": bool(getattr(mod, "EXHAUSTIVE", {}).get(tier, False)),
    }
    if hasattr(mod, "extra_coverage"):
        try:
            cov.update(mod.extra_coverage())
        except Exception as e:  # noqa: BLE001
            cov["extra_coverage_error"] = repr(e)
    ev = {
        "property_id": pid,
        "tier": tier,
        "seed": verif_seed,
        "level": mod.LEVEL,
        "coverage": cov,
        "assumptions": mod.ASSUMPTIONS,
        "wall_s": round(wall, 2),
        "violations": len(reported),
    }
    # (development runs against scratch trees may redirect their evidence; registered commands never set this)
    d = os.environ.get("VERIF_EVIDENCE_DIR") or os.path.join(VERIF, "evidence")
    os.makedirs(d, exist_ok=True)
    with open(os.path.join(d, "%s.json" % pid), "w") as f:
        json.dump(ev, f, indent=1, sort_keys=True, default=str)


def _sum_counters(dicts):
    c = collections.Counter()
    for d in dicts:
        for k, v in d.items():
            c[k] += v
    return dict(sorted(c.items()))
